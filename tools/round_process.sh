#!/bin/bash
# tools/round_process.sh <Cnn> <outN> <letters...>: confirm (unless already), detect with the property's own check (quick), import.
pid=$1; out=$2; shift 2
for x in "$@"; do
  d=/tmp/mut/$pid/$out/$x
  ( if [ -f $d/demo.rs ] && ! grep -q '"ok": true' $d/result.json 2>/dev/null; then MUT_SCRATCH=/tmp/mut/_s_$pid$x python3 /verif/tools/mutant.py confirm $d > $d.confirm.log 2>&1; fi
    MUT_SCRATCH=/tmp/mut/_s_$pid$x python3 /verif/tools/mutant.py detect $d $pid > $d.detect.log 2>&1
    rm -rf /tmp/mut/_s_$pid$x ) &
done
wait
git -C /repo worktree prune
for x in "$@"; do d=/tmp/mut/$pid/$out/$x; tail -n 1 $d.confirm.log 2>/dev/null | cut -c1-300; grep -E "exit [0-9]" $d.detect.log | cut -c1-400; done
