#!/usr/bin/env python3
"""Regenerate MANIFEST.json from the table below (claimed checks + not_applicable for the rest)."""
import json, os
V = os.path.dirname(os.path.dirname(os.path.abspath(__file__)))
props = [json.loads(l) for l in open(os.path.join(V, 'properties.jsonl'))]
CLAIMED = json.load(open(os.path.join(V, 'tools', 'claims.json')))
checks = []
for p in props:
    c = CLAIMED.get(p['id'])
    if not c: continue
    checks.append({
        'property_id': p['id'],
        'quick_cmd': './check %s --tier quick' % p['id'],
        'thorough_cmd': './check %s --tier thorough' % p['id'],
        'evidence_file': '/verif/evidence/%s.json' % p['id'],
        'replay_cmd_template': './check %s --replay {path}' % p['id'],
        'engine': 'vekscan+vv',
        'level_claimed': {'category': c['category'], 'text': c['text'], 'design_ref': c.get('design_ref', 'DESIGN.md section 4, ' + p['id'])},
        'level_note': c['note'] + ' The verdict is computed on the analysed build (debug assertions, cfg(nightly)); every check also compares the MIR of each vek body it interpreted with a release build under cfg(stable), re-runs the spec with debug_assert! conditions not evaluated where such a body has one, and fails closed on cfg predicates or type-level constants it cannot flip (DESIGN.md 6.6).',
        'technique': c['technique'] + '; cross-configuration MIR fingerprint comparison of the interpreted bodies (debug/nightly vs release/stable)',
    })
na = [{'property_id': p['id'], 'reason': 'check not built yet (build in progress; see DESIGN.md section 7)'} for p in props if p['id'] not in CLAIMED]
m = {
    'version': 1,
    'setup_cmd': 'cd /verif/vekscan && CARGO_NET_OFFLINE=true cargo build --release --offline',
    'hooks': {'guard': 'vek_verif', 'enable': 'none needed: no hooks in /repo (guard name reserved, unused); roots crates see --cfg vek_verif_scan only', 'baseline_off_cmd': 'cd /repo && cargo test --workspace --no-fail-fast --offline', 'source_commits': [], 'add_only': True},
    'engines': [
        {'name': 'vekscan', 'path': '/verif/vekscan', 'serves_properties': sorted(CLAIMED), 'kind_free_text': 'rustc_private driver (RUSTC_WRAPPER): abstract interpreter over monomorphic MIR with a free-term scalar domain and path enumeration; local-mode rules over all bodies of crate vek'},
        {'name': 'vv', 'path': '/verif/vv', 'serves_properties': sorted(CLAIMED), 'kind_free_text': 'Python: root generation, canonical rational-expression algebra, per-property rule tables and closed-form oracles, evidence'},
    ],
    'checks': checks,
    'not_applicable': na,
    'notes': 'Static analysis only: every verdict is computed from the MIR of /repo\'s current working tree (cargo +nightly check with the vekscan wrapper in a fresh target dir); vek code is never executed.',
}
if not na: m.pop('not_applicable')
json.dump(m, open(os.path.join(V, 'MANIFEST.json'), 'w'), indent=1)
print('claimed', len(checks), 'n/a', len(na))
