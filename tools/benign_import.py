#!/usr/bin/env python3
"""tools/benign_import.py <prefix> <dir>...: store behaviour-preserving edits (patch.diff, notes.md, result.json of tools/mutant.py detect,
optional confirm.json = {applies, suite_rc, suite}) under /verif/benign/<prefix><n>-<k>/ with a meta.json."""
import json, os, re, shutil, sys
V = os.path.dirname(os.path.dirname(os.path.abspath(__file__)))
prefix = sys.argv[1]
for d in sys.argv[2:]:
    d = d.rstrip('/')
    m = re.search(r'(\d)/out/(\d)$', d)
    bid = '%s%s-%s' % (prefix, m.group(1), m.group(2))
    out = os.path.join(V, 'benign', bid); os.makedirs(out, exist_ok=True)
    for f in ('patch.diff', 'notes.md'):
        if os.path.exists(os.path.join(d, f)): shutil.copy(os.path.join(d, f), os.path.join(out, f))
    r = json.load(open(os.path.join(d, 'result.json')))
    det = {k: {'exit': v.get('exit'), 'violations': v.get('violations'), 'keys': v.get('keys', [])[:4]} for k, v in r.get('detect', {}).items() if k.startswith('C')}
    meta = {'source': 'behaviour-preserving restructuring written by an independent sub-agent (no access to /verif)', 'checks_run': det,
            'silent': all(v['exit'] == 0 for v in det.values())}
    cf = os.path.join(d, 'confirm.json')
    if os.path.exists(cf): meta['confirmed'] = dict(json.load(open(cf)), how='patch applied to a scratch worktree of /repo HEAD; cargo test --workspace --no-fail-fast --offline')
    hf = os.path.join(d, 'history.json')
    if os.path.exists(hf): meta['history'] = json.load(open(hf))
    json.dump(meta, open(os.path.join(out, 'meta.json'), 'w'), indent=1)
    print(bid, 'silent' if meta['silent'] else 'ALARM', meta.get('confirmed', {}).get('suite'))
