#!/usr/bin/env python3
"""tools/anchor_audit.py <vis dir>: for every property, the function bodies of crate vek whose source lies inside the property's anchored line
ranges (properties.jsonl, `anchors.mechanism[].where`) and that the property's own check did NOT interpret.
Needs /tmp-style dumps produced with VV_DUMP_VISITED=<dir>/vis_NN.tsv ./check CNN --tier thorough, and a local-mode scan (done here)."""
import sys, os, json, re, glob, collections
sys.path.insert(0, os.path.dirname(os.path.dirname(os.path.abspath(__file__))))
from vv import run as vrun
from vv.shapes import ALL_FEATURES
visdir = sys.argv[1]
sc = vrun.scan([vrun.Root('r_dummy', 'pub fn r_dummy() {}')], ALL_FEATURES, local=True)
assert sc.compile_error is None, sc.compile_error[-2000:]
bk = {}
for l in sc.local: bk.update(l.get('bodykeys', {}))
vis = collections.defaultdict(set)
for f in glob.glob(os.path.join(visdir, 'vis_*.tsv')):
    for line in open(f):
        pid, v = line.rstrip('\n').split('\t'); vis[pid].add(v)
allvis = set().union(*vis.values()) if vis else set()
def ranges(where):
    out = []; cur = None
    for part in re.split(r'[;,]\s*', where):
        m = re.match(r'\s*(src/\w+\.rs):(\d+)(?:-(\d+))?', part)
        if m: cur = m.group(1); out.append((cur, int(m.group(2)), int(m.group(3) or m.group(2)))); continue
        m = re.match(r'\s*(\d+)(?:-(\d+))?', part)
        if m and cur: out.append((cur, int(m.group(1)), int(m.group(2) or m.group(1))))
    return out
DERIVED = re.compile(r'(::clone$|::fmt$|::hash$|::eq$|::ne$|assert_fields_are_eq|serialize|visit_|expecting|::default$|::partial_cmp$|::cmp$)')
rep = {}
for l in open(os.path.join(os.path.dirname(os.path.dirname(os.path.abspath(__file__))), 'properties.jsonl')):
    d = json.loads(l); pid = d['id']
    rs = []
    for m in d['anchors']['mechanism']: rs += ranges(m['where'])
    inside = []
    for k, v in bk.items():
        name, public, file, lo, hi = v
        f = file[file.index('src/'):] if 'src/' in file else file
        if any(f == rf and lo >= a and hi <= b + 3 for rf, a, b in rs): inside.append((k, name))
    own = [n for k, n in inside if k not in vis.get(pid, ())]
    nowhere = [n for k, n in inside if k not in allvis]
    own_nd = sorted(set(n for n in own if not DERIVED.search(n)))
    rep[pid] = {'bodies_in_anchored_ranges': len(inside), 'not_interpreted_by_own_check': len(own), 'of_which_not_derives': len(own_nd), 'interpreted_by_no_check': len(nowhere)}
    print(pid, rep[pid])
    for n in own_nd[:400]: print('    ', n)
json.dump(rep, open(os.path.join(visdir, 'anchor_audit.json'), 'w'), indent=1)
