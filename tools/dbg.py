#!/usr/bin/env python3
"""tools/dbg.py '<rust fn source>' [opaque,...]: interpret one root with call logging."""
import sys, os, json
sys.path.insert(0, os.path.dirname(os.path.dirname(os.path.abspath(__file__))))
from vv import run as vrun
from vv.shapes import ALL_FEATURES
code = sys.argv[1]
import re
name = re.search(r'fn (r_\w+)', code).group(1)
opaque = sys.argv[2].split(',') if len(sys.argv) > 2 else []
os.environ['VEKSCAN_LOG'] = '1'
sc = vrun.scan([vrun.Root(name, code, opaque=opaque, max_paths=int(os.environ.get('MAXP', '16')))], ALL_FEATURES + (['az'] if 'az' in os.environ.get('FEATS', '') else []))
if sc.compile_error: print(sc.compile_error[-3000:]); sys.exit(1)
r = sc[name]
log = [l for l in sc.log.splitlines() if l.lstrip().startswith('call ')]
print('\n'.join(l[:200] for l in log[-int(os.environ.get('TAIL', '40')):]))
print('STATUS', r.status, 'paths', len(r.paths))
for p in r.paths[:int(os.environ.get('NP', '6'))]:
    print(' conds', [str(c) for c in p.conds]); print('  out', p.out, p.panic if p.out != 'ret' else str(p.ret)[:1500]); print('  events', p.events[:20])
    if 'muts' in p.d and p.d['muts']: print('  muts', {k: str(p.mut(k))[:800] for k in p.d['muts']})
if os.environ.get('VEKSCAN_MIRDUMP'):
    on = False
    for l in sc.log.splitlines():
        if l.startswith('MIRDUMP'): on = True
        elif on and not l.startswith('  '): on = False
        if on: print(l[:300])
