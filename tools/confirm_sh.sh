#!/bin/bash
# tools/confirm_sh.sh <mutant dir with patch.diff + demo.sh>: confirm a change whose demonstration is a script (special build configuration)
d=$(realpath $1); id=$(echo $d | tr '/' '_'); wt=/tmp/mut/_sh$id/wt
mkdir -p /tmp/mut/_sh$id; git -C /repo worktree add --detach $wt HEAD >/dev/null 2>&1
cd $wt; export CARGO_TARGET_DIR=/tmp/mut/_sh$id/target CARGO_NET_OFFLINE=true
sh $d/demo.sh > $d/demo.clean.log 2>&1; c=$?
git apply $d/patch.diff; a=$?
sh $d/demo.sh > $d/demo.mut.log 2>&1; m=$?
suite=$(cargo test --workspace --no-fail-fast --offline 2>&1 | grep "test result" | tr '\n' ' ')
cd /; git -C /repo worktree remove --force $wt; rm -rf /tmp/mut/_sh$id
python3 - "$d" "$c" "$a" "$m" "$suite" <<'PY'
import json, sys, re
d, c, a, m, suite = sys.argv[1:6]
s = re.findall(r'test result: (\w+)\. (\d+) passed; (\d+) failed', suite)
ok = c == '0' and a == '0' and m != '0' and len(s) >= 2 and all(x[0] == 'ok' for x in s)
r = {'confirm_manual': 'demo.sh (special build configuration, see notes.md): exit %s on the clean worktree, exit %s with patch.diff applied; cargo test --workspace --no-fail-fast --offline with the change: %s' % (c, m, suite) if ok else None,
     'confirm': {'applies': a == '0', 'demo_passes_clean': c == '0', 'demo_fails_mutant': m != '0', 'suite': [list(x) for x in s], 'ok': ok, 'demo_fail_excerpt': 'demo.sh exit ' + m}}
json.dump(r, open(d + '/result.json', 'w'), indent=1); print(d, r['confirm'])
PY
