#!/usr/bin/env python3
"""tools/round_prompts.py <round letters, e.g. MNO> <outdir>: write one prompt per property for a further round of seeded changes.
The prompt contains only the property text, the one-line summaries of the changes earlier agents wrote for that property
(their own notes, nothing about /verif's checks) and the working conventions."""
import json, os, sys, glob
V = os.path.dirname(os.path.dirname(os.path.abspath(__file__)))
letters, outdir = sys.argv[1], sys.argv[2]
os.makedirs(outdir, exist_ok=True)
for l in open(os.path.join(V, 'properties.jsonl')):
    p = json.loads(l); pid = p['id']
    prev = []
    for d in sorted(glob.glob(os.path.join(V, 'seeded', pid + '-*'))):
        n = os.path.join(d, 'notes.md')
        if os.path.exists(n):
            first = next((x.strip().lstrip('# ').strip() for x in open(n) if x.strip()), '')
            prev.append('- ' + first)
    anchors = p.get('anchors', {})
    mech = '\n'.join('  - %s (%s)' % (m['name'], m['where']) for m in anchors.get('mechanism', []))
    txt = f"""You are helping to evaluate a verification tool for the Rust crate `vek` (yoanlcq/vek, a generic 2D/3D math library).
Your job: write THREE independent, realistic, subtle changes ("seeded defects") to the crate, each of which BREAKS the property below
while the crate still compiles and its whole existing test suite still passes.

PROPERTY {pid}: {p['title']}
{p['statement']}

Where the behaviour lives (for orientation only):
{mech}

Your private scratch checkout of the crate is the git worktree /tmp/mut/{pid}/wt (already created; work ONLY there; never touch /repo or /verif,
and do not read anything under /verif). Use CARGO_TARGET_DIR=/tmp/mut/{pid}/target and always pass --offline to cargo (there is no network).
The existing suite is: `cargo test --workspace --no-fail-fast --offline` (674 unit tests + 962 doc tests; it takes a few minutes, so run the
full suite once per candidate change at the end, and use `cargo test --offline --test demo` while iterating).

Earlier rounds already produced the following changes for this property (one line each). Do NOT repeat any of them or a close
variant; go for functions, code paths, element types, dimensions and kinds of defect that none of them came near:
{chr(10).join(prev)}

What I am looking for in this round (letters {', '.join(letters)}):
* Each change must need something SPECIFIC to manifest: a multi-step sequence of calls (state left behind by an earlier in-place call,
  an iterator pulled in a particular interleaving, a value converted twice), an unusual but legal input (ties, zero-extent, negative
  scale, un-normalised axis, bounds at the numeric limits, to<from), two cooperating sites that each look fine alone, or a particular
  build configuration (one cargo feature or feature combination, one element type of a per-type macro arm such as u16/i64/Wrapping<_>,
  one dimension such as Vec16, one storage layout, a release build versus a debug build). Nothing that ordinary use exposes at once.
* Prefer places that look unremarkable: trait impls that mirror an inherent method (Sum/Product/From/AsRef/Default/Neg/MulAssign),
  by-reference and in-place siblings, deprecated aliases, shared private helpers and macros with several callers, the less famous twin of
  a famous function (2-D, column-major, left-handed, zero-to-one depth, Rect3/Aabb rather than Rect/Aabr, Extent/Uv/Uvw rather than Vec).
* The change must be wrong for the PROPERTY (in exact arithmetic / for totally ordered inputs); do not rely on floating-point rounding,
  NaN or infinity, and do not merely change documentation, Debug output or performance.
* Keep each change small (a few lines) and natural-looking: the kind of slip or "optimisation" a maintainer could make.

For each change X in {{{', '.join(letters)}}} create the directory /tmp/mut/{pid}/out5/X/ containing:
  patch.diff   `git diff` of that ONE change against the clean worktree HEAD (must apply with `git apply` from the repo root);
  demo.rs      an integration test file (it will be copied to tests/demo.rs; `use vek::...`) whose tests PASS on the clean tree and FAIL
               with the change. If the demo needs cargo features beyond the default, write them in a first-line comment exactly like
               `// features: feature = "vec8"` so that they can be picked up. If the change only manifests in a release build or another
               special configuration, instead of demo.rs provide demo.sh (run from the repo root; exit 0 = behaves correctly, non-zero =
               defect manifests) and say so in notes.md.
  notes.md     first line: a one-line title `Mutant X — ...`; then what was changed and why it is wrong, a line starting with
               `Needs to manifest:` describing what is needed to see it, and why the existing tests do not see it.
Before finishing, for every change verify yourself in the worktree: (1) clean tree: demo passes; (2) with the change: demo fails;
(3) with the change: the full existing suite passes. Reset the worktree to clean (`git checkout -- . && rm -f tests/demo.rs`) between
changes and at the end. Report briefly what you produced."""
    open(os.path.join(outdir, pid + '.txt'), 'w').write(txt)
print('ok')
