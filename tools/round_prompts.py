#!/usr/bin/env python3
"""tools/round_prompts.py <round letters, e.g. MNO> <outdir>: write one prompt per property for a further round of seeded changes.
The prompt contains only the property text, the one-line summaries of the changes earlier agents wrote for that property
(their own notes, nothing about /verif's checks) and the working conventions."""
import json, os, sys, glob
V = os.path.dirname(os.path.dirname(os.path.abspath(__file__)))
letters, outdir = sys.argv[1], sys.argv[2]
rnd = sys.argv[3] if len(sys.argv) > 3 else '5'
os.makedirs(outdir, exist_ok=True)
for l in open(os.path.join(V, 'properties.jsonl')):
    p = json.loads(l); pid = p['id']
    prev = []
    for d in sorted(glob.glob(os.path.join(V, 'seeded', pid + '-*'))):
        n = os.path.join(d, 'notes.md')
        if os.path.exists(n):
            first = next((x.strip().lstrip('# ').strip() for x in open(n) if x.strip()), '')
            prev.append('- ' + first)
    anchors = p.get('anchors', {})
    mech = '\n'.join('  - %s (%s)' % (m['name'], m['where']) for m in anchors.get('mechanism', []))
    txt = f"""You are helping to evaluate a verification tool for the Rust crate `vek` (yoanlcq/vek, a generic 2D/3D math library).
Your job: write THREE independent, realistic, subtle changes ("seeded defects") to the crate, each of which BREAKS the property below
while the crate still compiles and its whole existing test suite still passes.

PROPERTY {pid}: {p['title']}
{p['statement']}

Where the behaviour lives (for orientation only):
{mech}

Your private scratch checkout of the crate is the git worktree /tmp/mut/{pid}/wt (already created; work ONLY there; never touch /repo or /verif,
and do not read anything under /verif). Use CARGO_TARGET_DIR=/tmp/mut/{pid}/target and always pass --offline to cargo (there is no network).
The existing suite is: `cargo test --workspace --no-fail-fast --offline` (674 unit tests + 962 doc tests; it takes a few minutes, so run the
full suite once per candidate change at the end, and use `cargo test --offline --test demo` while iterating).

Earlier rounds already produced the following changes for this property (one line each). Do NOT repeat any of them or a close
variant; go for functions, code paths, element types, dimensions and kinds of defect that none of them came near:
{chr(10).join(prev)}

What I am looking for in this round (letters {', '.join(letters)}) -- at least TWO of your three changes must come from this list, and the
three should be of three different kinds:
* ELEMENT-TYPE-SPECIFIC: generic code (`impl<T: ...>`) rewritten so that it stays correct for `f32`/`f64` in exact arithmetic but is wrong
  for integer, unsigned, `Wrapping<_>` or `bool` elements: truncating division (`a / s` vs `a * (1 / s)`, `(a + b) / 2` vs `a / 2 + b / 2`),
  `a - b` vs `-(b - a)` or reordered subtractions that underflow for unsigned types, `abs`/`signum`/negation tricks, `<` vs `<=` that only
  matters for discrete types, `T::one() / two`, casts through a narrower or signed type, or one arm of a per-type macro (u16, i64, ...).
* BUILD-CONFIGURATION-SPECIFIC: wrong only in a release build (`cfg!(debug_assertions)`, `#[cfg(not(debug_assertions))]`, work done inside
  a `debug_assert!`, an `assert!` the property requires demoted to `debug_assert!`), only on the stable or only on the nightly toolchain
  (`build.rs` emits `cfg(stable)` / `cfg(nightly)`), only for one `target_pointer_width`/`target_arch`, or only with one cargo feature or
  feature combination (`--no-default-features`, `libm` instead of `std`, `mint`, `az`, `bytemuck`, `serde`, `vec8`..`vec64`, `rgb`, `uv`, ...).
* STATE / SEQUENCE: wrong only after a particular sequence of calls (an in-place method that leaves one field stale for the NEXT call, an
  iterator pulled from both ends, `by_ref`, a value converted there and back twice) while every single call from a fresh value is right.
* PANIC / OPTION BEHAVIOUR: a documented panic that no longer happens or happens for legal inputs, `None` vs `Some` at exactly one boundary
  value, `unwrap_or` hiding a failure, an early return for an "obviously trivial" input (zero, one, identity, empty, equal bounds).
* TWO COOPERATING SITES that each look fine alone (a helper whose contract changed together with only some of its callers).
Other requirements:
* Prefer places that look unremarkable and that the earlier changes listed above never touched.
* The change must be wrong for the PROPERTY (in exact arithmetic / for totally ordered inputs); do not rely on floating-point rounding,
  NaN or infinity, and do not merely change documentation, Debug output or performance.
* Keep each change small (a few lines) and natural-looking: the kind of slip or "optimisation" a maintainer could make.

For each change X in {{{', '.join(letters)}}} create the directory /tmp/mut/{pid}/out{rnd}/X/ containing:
  patch.diff   `git diff` of that ONE change against the clean worktree HEAD (must apply with `git apply` from the repo root);
  demo.rs      an integration test file (it will be copied to tests/demo.rs; `use vek::...`) whose tests PASS on the clean tree and FAIL
               with the change. If the demo needs cargo features beyond the default, write them in a first-line comment exactly like
               `// features: feature = "vec8"` so that they can be picked up. If the change only manifests in a release build or another
               special configuration, instead of demo.rs provide demo.sh (run from the repo root; exit 0 = behaves correctly, non-zero =
               defect manifests) and say so in notes.md.
  notes.md     first line: a one-line title `Mutant X — ...`; then what was changed and why it is wrong, a line starting with
               `Needs to manifest:` describing what is needed to see it, and why the existing tests do not see it.
Before finishing, for every change verify yourself in the worktree: (1) clean tree: demo passes; (2) with the change: demo fails;
(3) with the change: the full existing suite passes. Reset the worktree to clean (`git checkout -- . && rm -f tests/demo.rs`) between
changes and at the end. Never use `git stash` (the stash is shared with other agents' worktrees): use `git diff > file`, `git checkout -- .`, `git apply file`.
Report briefly what you produced."""
    open(os.path.join(outdir, pid + '.txt'), 'w').write(txt)
print('ok')
