#!/usr/bin/env python3
"""Assemble /verif/DESIGN.md from tools/design_parts/*.md and the seeded-change table (seeded/*/meta.json)."""
import glob, json, os
V = os.path.dirname(os.path.dirname(os.path.abspath(__file__)))
parts = ['01_intro.md', '02_architecture.md', '03_domains.md', '04_properties.md', '05_to_08.md', '09_appendix.md']
rows = []
for f in sorted(glob.glob(os.path.join(V, 'seeded', '*', 'meta.json'))):
    m = json.load(open(f))
    d = os.path.dirname(f)
    notes = open(os.path.join(d, 'notes.md')).read() if os.path.exists(os.path.join(d, 'notes.md')) else ''
    import re
    first = ''
    for line in notes.splitlines():
        line = line.strip().lstrip('#-* ').strip()
        if len(line) > 25: first = line; break
    first = re.sub(r'\s+', ' ', first).replace('|', '/')[:170]
    det = []
    for k, v in sorted(m.get('checks_run', {}).items()):
        if v.get('exit') == 1 and v.get('violations'):
            det.append('**%s**: %d violations, e.g. `%s`' % (k.split(':')[0], v['violations'], (v.get('keys') or ['?'])[0]))
        elif v.get('exit') == 0: det.append('%s: not detected' % k.split(':')[0])
        else: det.append('%s: exit %s' % (k.split(':')[0], v.get('exit')))
    hist = m.get('history', {}).get('at_seeding_time')
    if hist: det.append('*at seeding time: %s*' % hist.replace('|', '/'))
    rows.append('| %s | %s | %s |' % (m['id'], first, '; '.join(det) or 'not run'))
n = len(rows); nd = sum(1 for r in rows if '**C' in r)
table = '%d seeded changes kept; %d detected by the final checks (quick tier; verdicts at seeding time are given where they differ).\n\n| id | change (first line of the author\'s notes) | verdict of the check(s) |\n|---|---|---|\n' % (n, nd) + '\n'.join(rows)
out = []
for p in parts:
    s = open(os.path.join(V, 'tools', 'design_parts', p)).read()
    out.append(s.replace('@@SEEDED_TABLE@@', table).rstrip('\n'))
sep = '\n\n---------------------------------------------------------------------------\n\n'
txt = out[0]
for s in out[1:]:
    txt = txt.rstrip('\n')
    if not txt.rstrip().endswith('-' * 20): txt += sep
    else: txt += '\n\n'
    txt += s
open(os.path.join(V, 'DESIGN.md'), 'w').write(txt + '\n')
print('DESIGN.md: %d lines, %d seeded rows' % (txt.count('\n') + 1, n))
