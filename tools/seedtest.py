#!/usr/bin/env python3
"""tools/seedtest.py <patch.diff> <Cnn> [<Cnn>...]: apply a seeded change to /repo, run the checks, always revert."""
import subprocess, sys, os
os.environ['VV_EVIDENCE_DIR'] = '/tmp/vv_seed_evidence'; os.environ['VV_OUT_DIR'] = '/tmp/vv_seed_out'
patch = sys.argv[1]; pids = sys.argv[2:]
assert subprocess.run(['git', '-C', '/repo', 'status', '--porcelain', '--untracked-files=no'], capture_output=True, text=True).stdout.strip() == '', '/repo not clean'
subprocess.run(['git', '-C', '/repo', 'apply', patch], check=True)
try:
    for pid in pids:
        p = subprocess.run([os.path.join(os.path.dirname(__file__), '..', 'check'), pid] + (['--tier', os.environ['TIER']] if 'TIER' in os.environ else []), capture_output=True, text=True)
        lines = [l for l in p.stdout.splitlines() if l.startswith(('VIOLATION', 'KNOWN', 'INTERNAL', '  key', '  found')) or ' obligations, ' in l]
        print('== %s on %s: exit %d' % (pid, patch, p.returncode))
        for l in lines[:14]: print('   ', l[:300])
        if p.returncode not in (0, 1): print(p.stdout[-1500:], p.stderr[-1500:])
finally:
    subprocess.run(['git', '-C', '/repo', 'checkout', '--', '.'], check=True)
