#!/usr/bin/env python3
"""tools/seed_import.py <mutant dir>...: copy a confirmed seeded change (patch.diff, demo, notes.md, result.json written by
tools/mutant.py) into /verif/seeded/<Cnn>-<letter>/ with a meta.json. Only changes whose confirmation succeeded are kept."""
import json, os, re, shutil, sys
V = os.path.dirname(os.path.dirname(os.path.abspath(__file__)))
for d in sys.argv[1:]:
    d = d.rstrip('/')
    rf = os.path.join(d, 'result.json')
    if not os.path.exists(rf): print('skip (no result.json)', d); continue
    r = json.load(open(rf)); c = r.get('confirm', {})
    if not c.get('ok') and not r.get('confirm_manual'): print('skip (not confirmed)', d, {k: v for k, v in c.items() if k != 'demo_fail_excerpt'}); continue
    m = re.search(r'/(C\d+)/out\d*/(\w+)$', d)
    pid, letter = m.group(1), m.group(2)
    out = os.path.join(V, 'seeded', '%s-%s' % (pid, letter)); os.makedirs(out, exist_ok=True)
    for f in ('patch.diff', 'demo.rs', 'demo.sh', 'notes.md'):
        if os.path.exists(os.path.join(d, f)): shutil.copy(os.path.join(d, f), os.path.join(out, f))
    notes = open(os.path.join(d, 'notes.md')).read() if os.path.exists(os.path.join(d, 'notes.md')) else ''
    needs = ''
    mm = re.search(r'(?im)^[-*\s]*\**(?:needs|manifests?|what is needed|needed)[^:\n]*:\**\s*(.+)$', notes)
    if mm: needs = mm.group(1).strip()
    meta = {
        'property': pid,
        'id': '%s-%s' % (pid, letter),
        'source': 'written by an independent sub-agent given only the property text and a scratch worktree of /repo',
        'needs_to_manifest': needs or 'see notes.md',
        'confirmed': {
            'how': 'tools/mutant.py confirm: scratch worktree of /repo HEAD; demo placed at tests/demo.rs; cargo test --offline --test demo on the clean tree (must pass) and with patch.diff applied (must fail); cargo test --workspace --no-fail-fast --offline with patch.diff applied (existing suite must pass)',
            'applies': c.get('applies'), 'demo_passes_clean': c.get('demo_passes_clean'), 'demo_fails_with_change': c.get('demo_fails_mutant'),
            'existing_suite_with_change': c.get('suite'), 'demo_failure_excerpt': (c.get('demo_fail_excerpt') or '')[:400],
        },
        'checks_run': r.get('detect', {}),
        'detected': any(v.get('exit') == 1 and v.get('violations', 0) > 0 for v in r.get('detect', {}).values()),
    }
    if r.get('confirm_manual'): meta['confirmed']['manual'] = r['confirm_manual']
    hf = os.path.join(d, 'history.json')
    if os.path.exists(hf): meta['history'] = json.load(open(hf))
    json.dump(meta, open(os.path.join(out, 'meta.json'), 'w'), indent=1)
    print('kept', out, 'detected' if meta['detected'] else 'NOT detected / not run')
