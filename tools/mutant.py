#!/usr/bin/env python3
"""Seeded-change helper (never touches /repo's working tree).

  tools/mutant.py confirm <dir>            dir holds patch.diff + demo.rs: in a scratch worktree of /repo confirm that the change
                                           compiles, passes the existing suite, and that the demo fails with it and passes without it
  tools/mutant.py detect <dir> Cnn [...]   run ./check Cnn against a scratch worktree with the change applied (VEK_REPO), report verdicts
Results are appended to <dir>/result.json. Scratch worktrees live under $MUT_SCRATCH (default /tmp/mut/_scratch) and are reused
between calls of the same kind; remove them with `tools/mutant.py clean`."""
import json, os, subprocess, sys, re, time

VERIF = os.path.dirname(os.path.dirname(os.path.abspath(__file__)))
SCR = os.environ.get('MUT_SCRATCH', '/tmp/mut/_scratch')


def sh(cmd, cwd=None, env=None, timeout=3600):
    p = subprocess.run(cmd, cwd=cwd, env=env, capture_output=True, text=True, timeout=timeout)
    return p.returncode, p.stdout + p.stderr


def worktree(kind):
    wt = os.path.join(SCR, kind, 'wt')
    if not os.path.isdir(wt):
        os.makedirs(os.path.dirname(wt), exist_ok=True)
        rc, out = sh(['git', '-C', '/repo', 'worktree', 'add', '--detach', wt, 'HEAD'])
        assert rc == 0, out
    else:
        head = sh(['git', '-C', '/repo', 'rev-parse', 'HEAD'])[1].strip()
        sh(['git', 'checkout', '-q', '--detach', head], cwd=wt)
    sh(['git', 'checkout', '--', '.'], cwd=wt); sh(['git', 'clean', '-fdq', 'tests'], cwd=wt)
    return wt


def load(d):
    f = os.path.join(d, 'result.json')
    return json.load(open(f)) if os.path.exists(f) else {}


def save(d, r): json.dump(r, open(os.path.join(d, 'result.json'), 'w'), indent=1)


def confirm(d):
    kind = os.environ.get('MUT_KIND', 'confirm'); wt = worktree(kind); tgt = os.path.join(SCR, kind, 'target')
    env = dict(os.environ, CARGO_TARGET_DIR=tgt, CARGO_NET_OFFLINE='true')
    r = load(d); c = {}
    patch = os.path.abspath(os.path.join(d, 'patch.diff')); demo = os.path.join(d, 'demo.rs')
    rc, out = sh(['git', 'apply', '--check', patch], cwd=wt)
    c['applies'] = rc == 0
    if rc != 0:
        c['error'] = out[-500:]; r['confirm'] = c; save(d, r); print(json.dumps(c)); return
    os.makedirs(os.path.join(wt, 'tests'), exist_ok=True)
    # clean tree: demo passes
    subprocess.run(['cp', demo, os.path.join(wt, 'tests', 'demo.rs')], check=True)
    feats = sorted(set(re.findall(r'feature\s*=\s*"([a-z0-9_]+)"', open(demo).read())))
    fargs = (['--features', ' '.join(feats)] if feats else [])
    c['demo_features'] = feats
    rc, out = sh(['cargo', 'test', '--offline'] + fargs + ['--test', 'demo'], cwd=wt, env=env)
    c['demo_passes_clean'] = rc == 0 and 'test result: ok' in out
    sh(['git', 'apply', patch], cwd=wt)
    rc, out = sh(['cargo', 'test', '--offline'] + fargs + ['--test', 'demo'], cwd=wt, env=env)
    c['demo_fails_mutant'] = rc != 0 and ('test result: FAILED' in out or 'panicked' in out)
    c['demo_fail_excerpt'] = '\n'.join(l for l in out.splitlines() if 'panicked' in l or 'assertion' in l or 'left:' in l or 'right:' in l)[:600]
    os.remove(os.path.join(wt, 'tests', 'demo.rs'))
    rc, out = sh(['cargo', 'test', '--workspace', '--no-fail-fast', '--offline'], cwd=wt, env=env)
    res = re.findall(r'test result: (\w+)\. (\d+) passed; (\d+) failed', out)
    c['suite'] = res; c['suite_passes_mutant'] = rc == 0 and bool(res) and all(x[0] == 'ok' for x in res)
    sh(['git', 'checkout', '--', '.'], cwd=wt)
    c['ok'] = c['demo_passes_clean'] and c['demo_fails_mutant'] and c['suite_passes_mutant']
    r['confirm'] = c; save(d, r); print(d, json.dumps({k: v for k, v in c.items() if k != 'demo_fail_excerpt'}))


def detect(d, pids, tier='quick'):
    wt = worktree('detect-%d' % os.getpid())
    r = load(d); det = r.setdefault('detect', {})
    patch = os.path.abspath(os.path.join(d, 'patch.diff'))
    rc, out = sh(['git', 'apply', patch], cwd=wt)
    assert rc == 0, out
    try:
        for pid in pids:
            ev = os.path.join(SCR, 'ev-%d' % os.getpid()); os.makedirs(ev, exist_ok=True)
            env = dict(os.environ, VEK_REPO=wt, VV_EVIDENCE_DIR=ev, VV_OUT_DIR=ev)
            t0 = time.time()
            rc, out = sh([os.path.join(VERIF, 'check'), pid, '--tier', tier], env=env, timeout=7200)
            keys = re.findall(r'^  key: (.*)$', out, re.M)
            det[pid + ':' + tier] = {'exit': rc, 'violations': len(re.findall(r'^VIOLATION', out, re.M)), 'keys': keys[:12], 'internal': re.findall(r'^INTERNAL: (.*)$', out, re.M)[:3], 'wall_s': round(time.time() - t0, 1)}
            print(d, pid, tier, 'exit', rc, 'violations', det[pid + ':' + tier]['violations'], keys[:4])
            if rc not in (0, 1): print(out[-1500:])
    finally:
        sh(['git', 'checkout', '--', '.'], cwd=wt)
        sh(['git', '-C', '/repo', 'worktree', 'remove', '--force', wt])
        subprocess.run(['rm', '-rf', os.path.join(SCR, 'ev-%d' % os.getpid()), os.path.dirname(wt)])
    save(d, r)


def clean():
    for k in os.listdir(SCR) if os.path.isdir(SCR) else []:
        wt = os.path.join(SCR, k, 'wt')
        if os.path.isdir(wt): sh(['git', '-C', '/repo', 'worktree', 'remove', '--force', wt])
    subprocess.run(['rm', '-rf', SCR]); sh(['git', '-C', '/repo', 'worktree', 'prune'])


if __name__ == '__main__':
    cmd = sys.argv[1]
    if cmd == 'confirm':
        for d in sys.argv[2:]: confirm(d)
    elif cmd == 'detect': detect(sys.argv[2], sys.argv[3:], os.environ.get('TIER', 'quick'))
    elif cmd == 'clean': clean()
