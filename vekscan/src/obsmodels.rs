//! Models of the observer plumbing of `core` (Debug builders, Hash and PartialEq on slices, trait objects):
//! every observed element is visited by calling the element type's own trait method, so that reads of
//! ownership-tracked tokens show up as `Touch` events.
use crate::interp::*;
use crate::value::*;
use rustc_middle::ty::{self, Ty};
use rustc_span::def_id::DefId;
use rustc_span::Symbol;

fn ok_unit<'tcx>() -> V<'tcx> {
    V::Enum(0, vec![V::unit()])
}

impl<'tcx> M<'tcx> {
    fn trait_method(&self, tr: DefId, method: &str) -> Option<DefId> {
        self.tcx.associated_items(tr).filter_by_name_unhygienic(Symbol::intern(method)).next().map(|a| a.def_id)
    }

    fn debug_trait(&self) -> Option<DefId> {
        self.tcx.get_diagnostic_item(rustc_span::sym::Debug)
    }

    /// `<T as Debug>::fmt(&*p, f)` with transparent wrappers and references peeled
    pub fn observe_debug(&mut self, p: &Ptr, t: Ty<'tcx>, f: &(V<'tcx>, Ty<'tcx>), ret_ty: Ty<'tcx>) -> R<()> {
        let tcx = self.tcx;
        let mut t = t;
        let mut p = p.clone();
        loop {
            if is_transparent(tcx, t) {
                t = inner_of_transparent(tcx, t);
                continue;
            }
            if let ty::Ref(_, inner, _) = t.kind() {
                match self.load(&p, t)? {
                    V::Ptr(q) => {
                        p = q;
                        t = *inner;
                        continue;
                    }
                    V::Dyn(q, dt) => {
                        p = q;
                        t = dt;
                        continue;
                    }
                    o => return unsup(format!("observed reference holds {:?}", o)),
                }
            }
            break;
        }
        let Some(tr) = self.debug_trait() else { return unsup("Debug trait not found") };
        let Some(m) = self.trait_method(tr, "fmt") else { return unsup("Debug::fmt not found") };
        let rt = Ty::new_imm_ref(tcx, tcx.lifetimes.re_erased, t);
        let args = tcx.mk_args(&[t.into()]);
        self.call_def(m, args, vec![(V::Ptr(p), rt), f.clone()], ret_ty)?;
        Ok(())
    }

    fn observe_value_debug(&mut self, v: &V<'tcx>, t: Ty<'tcx>, f: &(V<'tcx>, Ty<'tcx>), ret_ty: Ty<'tcx>) -> R<()> {
        match v {
            V::Dyn(p, dt) => self.observe_debug(&p.clone(), *dt, f, ret_ty),
            V::Ptr(p) => {
                let inner = match t.kind() {
                    ty::Ref(_, i, _) | ty::RawPtr(i, _) => *i,
                    _ => return unsup(format!("debug of pointer typed {}", t)),
                };
                self.observe_debug(&p.clone(), inner, f, ret_ty)
            }
            o => {
                let a = self.new_alloc(o.clone(), "observed");
                self.observe_debug(&Ptr { alloc: a, path: vec![], off: 0, sl: None }, t, f, ret_ty)
            }
        }
    }

    pub fn model_observers(&mut self, d: DefId, cargs: ty::GenericArgsRef<'tcx>, n: &str, vals: &mut Vec<(V<'tcx>, Ty<'tcx>)>, ret_ty: Ty<'tcx>) -> R<Option<V<'tcx>>> {
        let tcx = self.tcx;
        let last = n.rsplit("::").next().unwrap_or("");
        // ---- the roots crate's token observer
        if n == "touch" && vals.len() == 1 {
            if let (V::Ptr(p), ty::Ref(_, inner, _)) = (&vals[0].0, vals[0].1.kind()) {
                if is_tok(tcx, *inner) {
                    let v = self.load(&p.clone(), *inner)?;
                    match v {
                        V::T(x) => self.events.push(Event::Touch(x)),
                        V::Moved => self.events.push(Event::BadRead("observer read a moved-out token".into())),
                        V::Uninit => self.events.push(Event::BadRead("observer read an uninitialised token".into())),
                        _ => {}
                    }
                    return Ok(Some(V::unit()));
                }
            }
        }
        // ---- the roots crate's unwind point: returns, or panics and unwinds (one decision per call; the cleanup edges of every frame below are followed)
        if n == "maybe_unwind" && vals.is_empty() {
            if self.decide(2) == 1 {
                self.events.push(Event::Note("unwind".into()));
                return Err(Stop::Unwind);
            }
            return Ok(Some(V::unit()));
        }
        // ---- derive(Debug) helpers on Formatter
        if n.contains("fmt::Formatter") && last.starts_with("debug_") && last.ends_with("_finish") {
            let f = vals[0].clone();
            let rest: Vec<(V<'tcx>, Ty<'tcx>)> = vals[1..].to_vec();
            for (v, t) in rest {
                match &v {
                    V::Dyn(..) => self.observe_value_debug(&v, t, &f, ret_ty)?,
                    V::Ptr(p) if p.sl.is_some() => {
                        // &[&dyn Debug] (the *_fields_finish forms); &[&str] holds only literals
                        let inner = match t.kind() {
                            ty::Ref(_, i, _) => *i,
                            _ => continue,
                        };
                        if let ty::Slice(et) = inner.kind() {
                            let items = self.load(&p.clone(), inner)?;
                            if let V::Agg(items) = items {
                                for it in items {
                                    if matches!(it, V::Dyn(..)) {
                                        self.observe_value_debug(&it, *et, &f, ret_ty)?;
                                    }
                                }
                            }
                        }
                    }
                    _ => {}
                }
            }
            return Ok(Some(ok_unit()));
        }
        // ---- Debug builders
        if n.contains("fmt::Formatter") && matches!(last, "debug_tuple" | "debug_struct" | "debug_list" | "debug_set" | "debug_map") {
            self.fmt_ty = Some(vals[0].1);
            return Ok(Some(V::Obj("dbg", vec![vals[0].0.clone()])));
        }
        if n.contains("fmt::Debug") && (n.contains("DebugTuple") || n.contains("DebugStruct") || n.contains("DebugList") || n.contains("DebugSet") || n.contains("DebugMap")) || n.contains("fmt::builders::") {
            let selfv = vals[0].0.clone();
            let selft = vals[0].1;
            let (obj, by_ref) = match (&selfv, selft.kind()) {
                (V::Ptr(p), ty::Ref(_, inner, _)) => (self.load(&p.clone(), *inner)?, true),
                (o, _) => (o.clone(), false),
            };
            let V::Obj("dbg", inner) = obj else { return unsup(format!("debug builder method {} on {:?}", n, obj)) };
            let Some(fmt_ty) = self.fmt_ty else { return unsup("debug builder used before Formatter::debug_*") };
            let f = (inner[0].clone(), fmt_ty);
            let res_ty = self.fmt_result_ty(ret_ty);
            match last {
                "field" | "entry" | "key" | "value" => {
                    let (v, t) = vals.last().cloned().unwrap();
                    self.observe_value_debug(&v, t, &f, res_ty)?;
                    return Ok(Some(if by_ref { selfv } else { V::Obj("dbg", inner) }));
                }
                "entries" => {
                    let (mut it, it_ty) = vals[1].clone();
                    let dty = cargs.types().next().ok_or_else(|| Stop::Unsupported("entries without item type".into()))?;
                    if !matches!(it, V::SliceIter(..) | V::Obj(..)) {
                        return unsup(format!("debug entries over unmodelled iterator {} ({:?})", it_ty, it));
                    }
                    loop {
                        match self.iter_method(&mut it, "next")? {
                            V::Enum(1, mut e) => {
                                let item = e.remove(0);
                                let a = self.new_alloc(item, "entry");
                                self.observe_debug(&Ptr { alloc: a, path: vec![], off: 0, sl: None }, dty, &f, res_ty)?;
                            }
                            _ => break,
                        }
                    }
                    return Ok(Some(if by_ref { selfv } else { V::Obj("dbg", inner) }));
                }
                "finish" | "finish_non_exhaustive" => return Ok(Some(ok_unit())),
                _ => return unsup(format!("debug builder method {}", n)),
            }
        }
        // ---- trait methods on slices / scalars (matched on the unresolved trait method)
        if let Some(tr) = tcx.trait_of_assoc(d) {
            let trn = tcx.item_name(tr);
            let selfty = cargs.types().next();
            if let Some(st) = selfty {
                let st0 = peel_refs(st);
                match (trn.as_str(), last) {
                    ("Debug", "fmt") => {
                        if let ty::Slice(et) | ty::Array(et, _) = st.kind() {
                            let p = match &vals[0].0 {
                                V::Ptr(p) => p.clone(),
                                o => return unsup(format!("Debug of slice through {:?}", o)),
                            };
                            let (stride, len) = match (p.sl, st.kind()) {
                                (Some(s), _) => s,
                                (None, ty::Array(e, k)) => (leaf_count(tcx, *e), arr_len(tcx, *k)),
                                _ => return unsup("Debug of slice pointer without metadata"),
                            };
                            let f = vals[1].clone();
                            for k in 0..len {
                                let e = Ptr { alloc: p.alloc, path: p.path.clone(), off: p.off + k * stride, sl: None };
                                self.observe_debug(&e, *et, &f, ret_ty)?;
                            }
                            return Ok(Some(ok_unit()));
                        }
                    }
                    ("Hash", "hash") | ("Hash", "hash_slice") => {
                        if prim_like(st0) {
                            return Ok(Some(V::unit()));
                        }
                        let elem_slice = if last == "hash_slice" {
                            match vals[0].1.kind() {
                                ty::Ref(_, i, _) => match i.kind() {
                                    ty::Slice(et) => Some(*et),
                                    _ => None,
                                },
                                _ => None,
                            }
                        } else {
                            match st.kind() {
                                ty::Slice(et) | ty::Array(et, _) => Some(*et),
                                _ => None,
                            }
                        };
                        if let Some(et) = elem_slice {
                            let p = match &vals[0].0 {
                                V::Ptr(p) => p.clone(),
                                o => return unsup(format!("Hash of slice through {:?}", o)),
                            };
                            let (stride, len) = match (p.sl, st.kind()) {
                                (Some(s), _) => s,
                                (None, ty::Array(e, k)) => (leaf_count(tcx, *e), arr_len(tcx, *k)),
                                _ => return unsup("Hash of slice pointer without metadata"),
                            };
                            let Some(hm) = self.trait_method(tr, "hash") else { return unsup("Hash::hash not found") };
                            let hty = cargs.types().nth(1).ok_or_else(|| Stop::Unsupported("Hash::hash without hasher type".into()))?;
                            let state = vals[1].clone();
                            for k in 0..len {
                                let e = Ptr { alloc: p.alloc, path: p.path.clone(), off: p.off + k * stride, sl: None };
                                let mut t = et;
                                while is_transparent(tcx, t) {
                                    t = inner_of_transparent(tcx, t);
                                }
                                if prim_like(t) {
                                    continue;
                                }
                                let args = tcx.mk_args(&[t.into(), hty.into()]);
                                let rt = Ty::new_imm_ref(tcx, tcx.lifetimes.re_erased, t);
                                self.call_def(hm, args, vec![(V::Ptr(e), rt), state.clone()], ret_ty)?;
                            }
                            return Ok(Some(V::unit()));
                        }
                        if is_transparent(tcx, st) {
                            let mut t = st;
                            while is_transparent(tcx, t) {
                                t = inner_of_transparent(tcx, t);
                            }
                            if prim_like(t) {
                                return Ok(Some(V::unit()));
                            }
                            let Some(hm) = self.trait_method(tr, "hash") else { return unsup("Hash::hash not found") };
                            let hty = cargs.types().nth(1).ok_or_else(|| Stop::Unsupported("Hash::hash without hasher type".into()))?;
                            let args = tcx.mk_args(&[t.into(), hty.into()]);
                            let rt = Ty::new_imm_ref(tcx, tcx.lifetimes.re_erased, t);
                            return Ok(Some(self.call_def(hm, args, vec![(vals[0].0.clone(), rt), vals[1].clone()], ret_ty)?));
                        }
                    }
                    ("PartialEq", "eq") | ("PartialEq", "ne") => {
                        let rhs = cargs.types().nth(1);
                        if let (ty::Slice(at), Some(rt)) = (st.kind(), rhs) {
                            if let ty::Slice(bt) = rt.kind() {
                                let (p, q) = match (&vals[0].0, &vals[1].0) {
                                    (V::Ptr(p), V::Ptr(q)) => (p.clone(), q.clone()),
                                    _ => return unsup("slice eq through non-pointers"),
                                };
                                let (Some((sa, la)), Some((sb, lb))) = (p.sl, q.sl) else { return unsup("slice eq without metadata") };
                                let neg = last == "ne";
                                if la != lb {
                                    return Ok(Some(V::Int(neg as i128)));
                                }
                                let Some(em) = self.trait_method(tr, "eq") else { return unsup("PartialEq::eq not found") };
                                let mut acc: Option<V<'tcx>> = None;
                                for k in 0..la {
                                    let ea = Ptr { alloc: p.alloc, path: p.path.clone(), off: p.off + k * sa, sl: None };
                                    let eb = Ptr { alloc: q.alloc, path: q.path.clone(), off: q.off + k * sb, sl: None };
                                    let (mut ta, mut tb) = (*at, *bt);
                                    while is_transparent(tcx, ta) {
                                        ta = inner_of_transparent(tcx, ta);
                                    }
                                    while is_transparent(tcx, tb) {
                                        tb = inner_of_transparent(tcx, tb);
                                    }
                                    let args = tcx.mk_args(&[ta.into(), tb.into()]);
                                    let ra = Ty::new_imm_ref(tcx, tcx.lifetimes.re_erased, ta);
                                    let rb = Ty::new_imm_ref(tcx, tcx.lifetimes.re_erased, tb);
                                    let r = self.call_def(em, args, vec![(V::Ptr(ea), ra), (V::Ptr(eb), rb)], tcx.types.bool)?;
                                    acc = Some(match (acc, r) {
                                        (None, r) => r,
                                        (Some(V::Int(0)), _) => V::Int(0),
                                        (Some(V::Int(_)), r) => r,
                                        (Some(a), V::Int(0)) => {
                                            let _ = a;
                                            V::Int(0)
                                        }
                                        (Some(a), V::Int(_)) => a,
                                        (Some(a), b) => {
                                            let x = self.lift(&a, tcx.types.bool)?;
                                            let y = self.lift(&b, tcx.types.bool)?;
                                            V::T(self.terms.op("and", vec![x, y]))
                                        }
                                    });
                                }
                                let r = acc.unwrap_or(V::Int(1));
                                return Ok(Some(match (neg, r) {
                                    (false, r) => r,
                                    (true, V::Int(k)) => V::Int((k == 0) as i128),
                                    (true, o) => {
                                        let x = self.lift(&o, tcx.types.bool)?;
                                        V::T(self.terms.op("not", vec![x]))
                                    }
                                }));
                            }
                        }
                    }
                    _ => {}
                }
            }
        }
        Ok(None)
    }

    fn fmt_result_ty(&self, fallback: Ty<'tcx>) -> Ty<'tcx> {
        let tcx = self.tcx;
        if let Some(dbg) = self.debug_trait() {
            if let Some(m) = self.trait_method(dbg, "fmt") {
                let sig = tcx.fn_sig(m).instantiate_identity().skip_norm_wip().skip_binder();
                return sig.output();
            }
        }
        fallback
    }
}

fn prim_like(t: Ty<'_>) -> bool {
    matches!(t.kind(), ty::Int(_) | ty::Uint(_) | ty::Float(_) | ty::Bool | ty::Char | ty::Str)
}
