#![feature(rustc_private)]
#![allow(clippy::all)]
extern crate rustc_abi;
extern crate rustc_driver;
extern crate rustc_hir;
extern crate rustc_interface;
extern crate rustc_lexer;
extern crate rustc_middle;
extern crate rustc_span;

mod exec;
mod interp;
mod local;
mod models;
mod obsmodels;
mod terms;
mod value;

use interp::*;
use rustc_driver::{Callbacks, Compilation};
use rustc_hir::def::DefKind;
use rustc_middle::ty::{self, Instance, Ty, TyCtxt};
use std::collections::HashMap;
use std::fmt::Write as _;
use terms::jstr;
use value::*;

struct Cb;

struct RootCfg {
    max_paths: usize,
    opaque: Vec<String>,
}

fn read_cfg() -> HashMap<String, RootCfg> {
    let mut m = HashMap::new();
    if let Ok(p) = std::env::var("VEKSCAN_CFG") {
        if let Ok(s) = std::fs::read_to_string(p) {
            for line in s.lines() {
                let f: Vec<&str> = line.split('\t').collect();
                if f.len() >= 3 {
                    m.insert(f[0].to_string(), RootCfg { max_paths: f[1].parse().unwrap_or(64), opaque: f[2].split('|').filter(|x| !x.is_empty()).map(|x| x.to_string()).collect() });
                }
            }
        }
    }
    m
}

fn val_json<'tcx>(m: &mut M<'tcx>, v: &V<'tcx>, t: Option<Ty<'tcx>>, depth: usize) -> String {
    match v {
        V::Uninit => "\"uninit\"".into(),
        V::Moved => "\"moved\"".into(),
        V::Int(i) => format!("{{\"i\":\"{}\"}}", i),
        V::T(t) => format!("{{\"t\":{}}}", t),
        V::Agg(f) => {
            let tys: Vec<Option<Ty<'tcx>>> = field_tys(m.tcx, t, f.len());
            let parts: Vec<String> = f.iter().zip(tys).map(|(x, ft)| val_json(m, x, ft, depth + 1)).collect();
            format!("{{\"a\":[{}]}}", parts.join(","))
        }
        V::Enum(var, f) => {
            let parts: Vec<String> = f.iter().map(|x| val_json(m, x, None, depth + 1)).collect();
            format!("{{\"e\":[{},[{}]]}}", var, parts.join(","))
        }
        V::Ptr(p) => {
            let mut s = format!("{{\"p\":{{\"alloc\":{},\"aid\":{},\"path\":{},\"off\":{}", jstr(&m.alloc_names[p.alloc]), p.alloc, jstr(&format!("{:?}", p.path)), p.off);
            if let Some((st, len)) = p.sl {
                let _ = write!(s, ",\"sl\":[{},{}]", st, len);
            }
            if depth < 4 {
                let pointee = t.and_then(|t| match t.kind() {
                    ty::Ref(_, i, _) | ty::RawPtr(i, _) => Some(*i),
                    _ => None,
                });
                if let Some(pt) = pointee {
                    if let Ok(pv) = m.load(p, pt) {
                        let _ = write!(s, ",\"v\":{}", val_json(m, &pv, Some(pt), depth + 1));
                    }
                }
            }
            s.push_str("}}");
            s
        }
        V::Dyn(p, dt) => format!("{{\"dyn\":[{},{}]}}", jstr(&format!("{:?}", p.path)), jstr(&format!("{}", dt))),
        V::FnDef(d, _) => format!("{{\"fn\":{}}}", jstr(&m.tcx.def_path_str(*d))),
        V::OpaqueFn(n) => format!("{{\"fn\":{}}}", jstr(n)),
        V::Str(s) => format!("{{\"s\":{}}}", jstr(s)),
        V::SliceIter(..) => "\"sliceiter\"".into(),
        V::Obj(n, _) => format!("\"obj:{}\"", n),
    }
}

fn field_tys<'tcx>(tcx: TyCtxt<'tcx>, t: Option<Ty<'tcx>>, n: usize) -> Vec<Option<Ty<'tcx>>> {
    let none = || (0..n).map(|_| None).collect::<Vec<_>>();
    let Some(mut t) = t else { return none() };
    while is_transparent(tcx, t) {
        t = inner_of_transparent(tcx, t);
    }
    match t.kind() {
        ty::Adt(a, args) if a.is_struct() && a.non_enum_variant().fields.len() == n => a.non_enum_variant().fields.iter().map(|f| Some(f.ty(tcx, args))).collect(),
        ty::Tuple(ts) if ts.len() == n => ts.iter().map(Some).collect(),
        ty::Array(e, _) | ty::Slice(e) => (0..n).map(|_| Some(*e)).collect(),
        _ => none(),
    }
}

fn events_json(ev: &[Event]) -> String {
    let parts: Vec<String> = ev
        .iter()
        .map(|e| match e {
            Event::Call(n, a, r) => format!("[\"call\",{},[{}],{}]", jstr(n), a.iter().map(|x| x.to_string()).collect::<Vec<_>>().join(","), r),
            Event::Drop(t) => format!("[\"drop\",{}]", t),
            Event::Touch(t) => format!("[\"touch\",{}]", t),
            Event::Ovf(n, t) => format!("[\"ovf\",{},{}]", jstr(n), t),
            Event::RawSlice(et, alloc, avail, stride, len) => format!("[\"rawslice\",{},{},{},{},{}]", jstr(et), jstr(alloc), avail, stride, len),
            Event::Fmt(s) => format!("[\"fmt\",{}]", jstr(s)),
            Event::FmtVal(t) => format!("[\"fmtval\",{}]", t),
            Event::FmtArg(t) => format!("[\"fmtarg\",{}]", t),
            Event::BadRead(s) => format!("[\"badread\",{}]", jstr(s)),
            Event::Note(s) => format!("[\"note\",{}]", jstr(s)),
        })
        .collect();
    format!("[{}]", parts.join(","))
}

fn run_root<'tcx>(tcx: TyCtxt<'tcx>, did: rustc_span::def_id::DefId, cfg: Option<&RootCfg>, log: bool) -> String {
    let name = tcx.item_name(did).to_string();
    let inst = Instance::mono(tcx, did);
    let sig = tcx.fn_sig(did).instantiate_identity().skip_norm_wip().skip_binder();
    let max_paths = cfg.map(|c| c.max_paths).unwrap_or(64);
    let opaque = cfg.map(|c| c.opaque.clone()).unwrap_or_default();
    let mut m = M::new(tcx, Config { opaque, max_steps: 400_000, log, release: std::env::var("VEKSCAN_RELEASE").is_ok() });
    let mut paths: Vec<String> = vec![];
    let mut status = "ok".to_string();
    let mut total_steps = 0usize;
    let input_tys: Vec<Ty<'tcx>> = sig.inputs().to_vec();
    let ret_ty = sig.output();
    loop {
        m.reset_path();
        // build inputs
        let mut args = vec![];
        let mut arg_ptrs: Vec<(String, Ptr, Ty<'tcx>)> = vec![];
        let mut bad = None;
        for (i, t) in input_tys.iter().enumerate() {
            match m.mk_input(*t, &format!("a{}", i)) {
                Ok(v) => {
                    if let (V::Ptr(p), ty::Ref(_, inner, _)) = (&v, t.kind()) {
                        arg_ptrs.push((format!("a{}", i), p.clone(), *inner));
                    }
                    args.push((v, *t));
                }
                Err(Stop::Unsupported(s)) | Err(Stop::Panic(s)) => {
                    bad = Some(s);
                    break;
                }
                Err(Stop::Unwind) => {
                    bad = Some("unwind while building inputs".into());
                    break;
                }
            }
        }
        if let Some(s) = bad {
            status = format!("unsupported: {}", s);
            break;
        }
        let r = std::panic::catch_unwind(std::panic::AssertUnwindSafe(|| m.run_instance(inst, args)));
        total_steps += m.steps;
        let conds: Vec<String> = m.conds.iter().map(|(t, v)| format!("[{},\"{}\"]", t, v)).collect();
        match r {
            Err(e) => {
                let msg = e.downcast_ref::<String>().cloned().or_else(|| e.downcast_ref::<&str>().map(|s| s.to_string())).unwrap_or_default();
                status = format!("unsupported: interpreter panic: {}", msg);
                break;
            }
            Ok(Err(Stop::Unsupported(s))) => {
                let at: Vec<String> = m.loc_stack.iter().rev().take(3).map(|(d, bb)| format!("{}:bb{}", tcx.def_path_str(*d), bb)).collect();
                status = format!("unsupported: {} [at {}]", s, at.join(" <- "));
                paths.push(format!("{{\"conds\":[{}],\"out\":\"unsupported\",\"events\":{}}}", conds.join(","), events_json(&m.events)));
                break;
            }
            Ok(Err(Stop::Unwind)) => {
                // the final state behind every `&mut` argument is what the caller sees after catching the panic
                let mut muts = vec![];
                for (n, p, t) in &arg_ptrs {
                    if let Ok(pv) = m.load(p, *t) {
                        muts.push(format!("{}:{}", jstr(n), val_json(&mut m, &pv, Some(*t), 1)));
                    }
                }
                paths.push(format!("{{\"conds\":[{}],\"out\":\"unwind\",\"muts\":{{{}}},\"events\":{}}}", conds.join(","), muts.join(","), events_json(&m.events)));
            }
            Ok(Err(Stop::Panic(s))) => {
                paths.push(format!("{{\"conds\":[{}],\"out\":\"panic\",\"panic\":{},\"events\":{}}}", conds.join(","), jstr(&s), events_json(&m.events)));
            }
            Ok(Ok(v)) => {
                let rj = val_json(&mut m, &v, Some(ret_ty), 0);
                let mut muts = vec![];
                for (n, p, t) in &arg_ptrs {
                    if let Ok(pv) = m.load(p, *t) {
                        muts.push(format!("{}:{}", jstr(n), val_json(&mut m, &pv, Some(*t), 1)));
                    }
                }
                let ev = events_json(&m.events);
                paths.push(format!("{{\"conds\":[{}],\"out\":\"ret\",\"ret\":{},\"muts\":{{{}}},\"events\":{}}}", conds.join(","), rj, muts.join(","), ev));
            }
        }
        if !m.next_script() {
            break;
        }
        if paths.len() >= max_paths {
            status = format!("unsupported: more than {} paths", max_paths);
            break;
        }
    }
    let argd: Vec<String> = input_tys.iter().enumerate().map(|(i, t)| format!("[{},{}]", jstr(&format!("a{}", i)), jstr(&format!("{}", t)))).collect();
    format!("{{\"name\":{},\"status\":{},\"steps\":{},\"args\":[{}],\"ret_ty\":{},\"terms\":{},\"visited\":[{}],\"paths\":[{}]}}", jstr(&name), jstr(&status), total_steps, argd.join(","), jstr(&format!("{}", ret_ty)), m.terms.to_json(), m.visited.iter().map(|x| jstr(x)).collect::<Vec<_>>().join(","), paths.join(","))
}

impl Callbacks for Cb {
    fn after_analysis<'tcx>(&mut self, _c: &rustc_interface::interface::Compiler, tcx: TyCtxt<'tcx>) -> Compilation {
        let krate = tcx.crate_name(rustc_span::def_id::LOCAL_CRATE).to_string();
        let out = match std::env::var("VEKSCAN_OUT") {
            Ok(o) => o,
            Err(_) => return Compilation::Continue,
        };
        if krate == "vek" && std::env::var("VEKSCAN_LOCAL").is_ok() {
            let s = local::run(tcx);
            std::fs::write(format!("{}/local.{}.json", out, std::process::id()), s).expect("write facts");
        }
        if krate == "roots" {
            let cfg = read_cfg();
            let only = std::env::var("VEKSCAN_ONLY").ok();
            let log = std::env::var("VEKSCAN_LOG").is_ok();
            let mut outs = vec![];
            for ldid in tcx.hir_body_owners() {
                let did = ldid.to_def_id();
                if !matches!(tcx.def_kind(did), DefKind::Fn) {
                    continue;
                }
                let name = tcx.item_name(did).to_string();
                if !name.starts_with("r_") {
                    continue;
                }
                if let Some(o) = &only {
                    if !name.contains(o.as_str()) {
                        continue;
                    }
                }
                outs.push(run_root(tcx, did, cfg.get(&name), log));
            }
            let s = format!("{{\"roots\":[\n{}\n]}}", outs.join(",\n"));
            std::fs::write(format!("{}/roots.{}.json", out, std::process::id()), s).expect("write facts");
        }
        Compilation::Continue
    }
}

fn main() {
    let mut args: Vec<String> = std::env::args().collect();
    if args.len() > 1 && (args[1].ends_with("rustc") || args[1].ends_with("rustc.exe")) {
        args.remove(1);
    }
    // configuration-invariance rule: present the crate with the release channel's cfg (`build.rs` emits --cfg nightly for this toolchain)
    if let Ok(ch) = std::env::var("VEKSCAN_CHANNEL") {
        for i in 1..args.len() {
            if args[i - 1] == "--cfg" && (args[i] == "nightly" || args[i] == "stable" || args[i] == "beta" || args[i] == "dev") {
                args[i] = ch.clone();
            }
        }
    }
    rustc_driver::run_compiler(&args, &mut Cb);
}
