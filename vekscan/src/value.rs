//! Abstract values of the MIR interpreter.
use crate::terms::Tid;
use rustc_middle::ty::{self, Ty, TyCtxt};
use rustc_span::def_id::DefId;

/// path element inside an allocation's value tree
#[derive(Clone, Copy, Debug, PartialEq, Eq)]
pub enum PE {
    F(u32),
    Variant(u32),
}

#[derive(Clone, Debug, PartialEq)]
pub struct Ptr {
    pub alloc: usize,
    pub path: Vec<PE>,
    /// leaf offset inside the subtree at `path`
    pub off: usize,
    /// slice metadata: (stride in leaves, length in elements)
    pub sl: Option<(usize, usize)>,
}

#[derive(Clone, Debug, PartialEq)]
pub enum V<'tcx> {
    Uninit,
    Moved,
    /// concrete integer / bool / char (normalised to its type's range)
    Int(i128),
    /// symbolic value (scalar, or a whole symbolic ADT such as Option<i32> returned by an external fn)
    T(Tid),
    Agg(Vec<V<'tcx>>),
    Enum(u32, Vec<V<'tcx>>),
    Ptr(Ptr),
    /// pointer to a trait object: data pointer + the concrete pointee type it was unsized from
    Dyn(Ptr, Ty<'tcx>),
    FnDef(DefId, ty::GenericArgsRef<'tcx>),
    /// opaque function pointer given as root argument
    OpaqueFn(String),
    /// constant string literal
    Str(String),
    /// slice iterator model: pointer with slice meta, front, back, flags (bit0: mutable, bit1: reversed)
    SliceIter(Ptr, usize, usize, u32),
    /// modelled library object (e.g. Zip of two modelled iterators)
    Obj(&'static str, Vec<V<'tcx>>),
}

impl<'tcx> V<'tcx> {
    pub fn unit() -> Self {
        V::Agg(vec![])
    }
}

pub fn adt_name<'tcx>(tcx: TyCtxt<'tcx>, did: DefId) -> String {
    tcx.def_path_str(did)
}

pub fn is_transparent_adt<'tcx>(tcx: TyCtxt<'tcx>, did: DefId) -> bool {
    let n = tcx.def_path_str(did);
    n == "std::mem::ManuallyDrop"
        || n == "std::mem::MaybeUninit"
        || n == "std::mem::MaybeDangling"
        || n == "core::mem::ManuallyDrop"
        || n == "core::mem::MaybeUninit"
        || n == "core::mem::MaybeDangling"
        || n.ends_with("::ManuallyDrop")
        || n.ends_with("::MaybeUninit")
        || n.ends_with("::MaybeDangling")
}

pub fn is_transparent<'tcx>(tcx: TyCtxt<'tcx>, t: Ty<'tcx>) -> bool {
    matches!(t.kind(), ty::Adt(a, _) if is_transparent_adt(tcx, a.did()))
}

pub fn is_manually_drop<'tcx>(tcx: TyCtxt<'tcx>, t: Ty<'tcx>) -> bool {
    matches!(t.kind(), ty::Adt(a, _) if tcx.def_path_str(a.did()).ends_with("::ManuallyDrop"))
}

/// The ownership-tracked opaque element type defined in the roots crate.
pub fn is_tok<'tcx>(tcx: TyCtxt<'tcx>, t: Ty<'tcx>) -> bool {
    matches!(t.kind(), ty::Adt(a, _) if tcx.item_name(a.did()).as_str() == "Tok")
}

/// library types kept as one opaque leaf (their internal layout is irrelevant to the analysis)
pub fn is_opaque_leaf<'tcx>(tcx: TyCtxt<'tcx>, t: Ty<'tcx>) -> bool {
    matches!(t.kind(), ty::Adt(a, _) if { let n = tcx.def_path_str(a.did()); n == "std::fmt::Arguments" || n == "core::fmt::Arguments" })
}

pub fn inner_of_transparent<'tcx>(tcx: TyCtxt<'tcx>, t: Ty<'tcx>) -> Ty<'tcx> {
    if let ty::Adt(a, args) = t.kind() {
        // MaybeUninit is a union {uninit: (), value: ManuallyDrop<T>}: take the last field
        let f = a.non_enum_variant().fields.iter().last().unwrap();
        return f.ty(tcx, args);
    }
    t
}

pub fn arr_len<'tcx>(tcx: TyCtxt<'tcx>, n: ty::Const<'tcx>) -> usize {
    n.try_to_target_usize(tcx).expect("array length not evaluated") as usize
}

pub fn leaf_count<'tcx>(tcx: TyCtxt<'tcx>, t: Ty<'tcx>) -> usize {
    match t.kind() {
        ty::Adt(a, _) if is_transparent_adt(tcx, a.did()) => leaf_count(tcx, inner_of_transparent(tcx, t)),
        ty::Adt(_, _) if is_tok(tcx, t) || is_opaque_leaf(tcx, t) => 1,
        ty::Adt(a, args) if a.is_struct() => a.non_enum_variant().fields.iter().map(|f| leaf_count(tcx, f.ty(tcx, args))).sum(),
        ty::Tuple(ts) => ts.iter().map(|t| leaf_count(tcx, t)).sum(),
        ty::Array(e, n) => leaf_count(tcx, *e) * arr_len(tcx, *n),
        ty::Closure(_, args) => args.as_closure().upvar_tys().iter().map(|t| leaf_count(tcx, t)).sum(),
        _ => 1,
    }
}

pub fn vleaves(v: &V) -> usize {
    match v {
        V::Agg(f) => f.iter().map(vleaves).sum(),
        _ => 1,
    }
}

pub fn flatten<'tcx>(v: &V<'tcx>, out: &mut Vec<V<'tcx>>) {
    match v {
        V::Agg(f) => {
            for x in f {
                flatten(x, out)
            }
        }
        o => out.push(o.clone()),
    }
}

/// Find the subtree of `v` that covers exactly leaves [start, start+count).
pub fn flat_sub(v: &V, start: usize, count: usize, out: &mut Vec<PE>) -> bool {
    if start == 0 && vleaves(v) == count {
        // prefer the deepest single-child chain? no: the outermost exact cover
        return true;
    }
    if let V::Agg(f) = v {
        let mut off = 0;
        for (i, c) in f.iter().enumerate() {
            let n = vleaves(c);
            if start >= off && start + count <= off + n && n > 0 {
                out.push(PE::F(i as u32));
                return flat_sub(c, start - off, count, out);
            }
            off += n;
        }
    }
    false
}

pub fn reshape<'tcx>(tcx: TyCtxt<'tcx>, t: Ty<'tcx>, leaves: &mut std::vec::IntoIter<V<'tcx>>) -> V<'tcx> {
    match t.kind() {
        ty::Adt(a, _) if is_transparent_adt(tcx, a.did()) => reshape(tcx, inner_of_transparent(tcx, t), leaves),
        ty::Adt(_, _) if is_tok(tcx, t) || is_opaque_leaf(tcx, t) => leaves.next().unwrap_or(V::Uninit),
        ty::Adt(a, args) if a.is_struct() => V::Agg(a.non_enum_variant().fields.iter().map(|f| reshape(tcx, f.ty(tcx, args), leaves)).collect()),
        ty::Tuple(ts) => V::Agg(ts.iter().map(|t| reshape(tcx, t, leaves)).collect()),
        ty::Array(e, n) => V::Agg((0..arr_len(tcx, *n)).map(|_| reshape(tcx, *e, leaves)).collect()),
        ty::Closure(_, args) => V::Agg(args.as_closure().upvar_tys().iter().map(|t| reshape(tcx, t, leaves)).collect()),
        _ => leaves.next().unwrap_or(V::Uninit),
    }
}

pub fn mk_uninit<'tcx>(tcx: TyCtxt<'tcx>, t: Ty<'tcx>) -> V<'tcx> {
    let n = leaf_count(tcx, t);
    let v: Vec<V<'tcx>> = (0..n).map(|_| V::Uninit).collect();
    reshape(tcx, t, &mut v.into_iter())
}
