//! Abstract interpreter over monomorphic MIR with a free-term scalar domain.
//! Paths are enumerated by re-execution under a decision script (no state cloning).
use crate::terms::{Term, Terms, Tid};
use crate::value::*;
use rustc_abi::FieldIdx;
use rustc_middle::mir::{self, *};
use rustc_middle::ty::{self, EarlyBinder, Instance, InstanceKind, Ty, TyCtxt, TypingEnv};
use rustc_span::def_id::DefId;

pub enum Stop {
    Unsupported(String),
    Panic(String),
    /// a panic raised by the roots crate's `maybe_unwind()` that is being unwound through the cleanup blocks of the frames below it
    Unwind,
}
pub type R<T> = Result<T, Stop>;

pub fn unsup<T>(s: impl Into<String>) -> R<T> {
    Err(Stop::Unsupported(s.into()))
}

#[derive(Clone, Debug)]
pub enum Event {
    /// call of an opaque function: name, argument leaves, result term
    Call(String, Vec<Tid>, Tid),
    /// drop of an ownership-tracked token
    Drop(Tid),
    /// read (touch) of an ownership-tracked token by an observer
    Touch(Tid),
    /// checked arithmetic on symbolic integers (overflow assert assumed to pass): op, result term
    Ovf(String, Tid),
    /// a raw-pointer slice view was created: pointee type, repr, pointee leaves, stride, len, alloc name, path
    RawSlice(String, String, usize, usize, usize),
    /// formatted output piece
    Fmt(String),
    FmtVal(Tid),
    /// value formatted through format_args! (its own format spec: the caller's width/precision/sign are NOT forwarded)
    FmtArg(Tid),
    /// use of a moved-out / uninitialised leaf
    BadRead(String),
    /// generic note
    Note(String),
}

pub struct Frame<'tcx> {
    pub inst: Instance<'tcx>,
    pub body: &'tcx Body<'tcx>,
    pub locals: Vec<usize>,
}

pub struct Config {
    /// def-path prefixes (as printed by def_path_str, without generic args) summarised as `call:` terms
    pub opaque: Vec<String>,
    pub max_steps: usize,
    pub log: bool,
    /// interpret as a release build: `debug_assert!` conditions are not evaluated
    pub release: bool,
}

pub struct M<'tcx> {
    pub tcx: TyCtxt<'tcx>,
    pub terms: Terms,
    pub allocs: Vec<V<'tcx>>,
    pub alloc_names: Vec<String>,
    pub steps: usize,
    pub cfg: Config,
    // decision script
    pub script: Vec<(usize, usize)>, // (choice, arity)
    pub pos: usize,
    pub conds: Vec<(Tid, i128)>,
    pub events: Vec<Event>,
    pub depth: usize,
    /// (function, basic block) of every live frame: reported with `unsupported` so the construct is diagnosable
    pub loc_stack: Vec<(rustc_span::def_id::DefId, usize)>,
    pub fmt_ty: Option<Ty<'tcx>>,
    pub visited: std::collections::BTreeSet<String>,
    /// types of values parked in allocations by the models (e.g. the arbitrary iterator inside a modelled zip)
    pub alloc_tys: std::collections::HashMap<usize, Ty<'tcx>>,
}

pub fn tyenv<'tcx>() -> TypingEnv<'tcx> {
    TypingEnv::fully_monomorphized()
}

pub fn int_norm<'tcx>(tcx: TyCtxt<'tcx>, t: Ty<'tcx>, v: i128) -> i128 {
    let (bits, signed) = match t.kind() {
        ty::Int(i) => (i.bit_width().unwrap_or(tcx.data_layout.pointer_size().bits()) as u32, true),
        ty::Uint(u) => (u.bit_width().unwrap_or(tcx.data_layout.pointer_size().bits()) as u32, false),
        ty::Bool => return (v != 0) as i128,
        ty::Char => (32, false),
        _ => return v,
    };
    if bits >= 128 {
        return v;
    }
    let m = (1i128 << bits) - 1;
    let u = v & m;
    if signed && (u >> (bits - 1)) & 1 == 1 {
        u - (1i128 << bits)
    } else {
        u
    }
}

pub fn int_bits<'tcx>(tcx: TyCtxt<'tcx>, t: Ty<'tcx>) -> u32 {
    match t.kind() {
        ty::Int(i) => i.bit_width().unwrap_or(tcx.data_layout.pointer_size().bits()) as u32,
        ty::Uint(u) => u.bit_width().unwrap_or(tcx.data_layout.pointer_size().bits()) as u32,
        ty::Bool => 1,
        ty::Char => 32,
        _ => 64,
    }
}

pub fn is_scalar_ty(t: Ty<'_>) -> bool {
    matches!(t.kind(), ty::Int(_) | ty::Uint(_) | ty::Float(_) | ty::Bool | ty::Char)
}

pub fn peel_refs<'tcx>(mut t: Ty<'tcx>) -> Ty<'tcx> {
    while let ty::Ref(_, i, _) = t.kind() {
        t = *i;
    }
    t
}

impl<'tcx> M<'tcx> {
    pub fn new(tcx: TyCtxt<'tcx>, cfg: Config) -> Self {
        M { tcx, terms: Terms::default(), allocs: vec![], alloc_names: vec![], steps: 0, cfg, script: vec![], pos: 0, conds: vec![], events: vec![], depth: 0, loc_stack: vec![], fmt_ty: None, visited: Default::default(), alloc_tys: Default::default() }
    }

    pub fn reset_path(&mut self) {
        self.allocs.clear();
        self.alloc_names.clear();
        self.steps = 0;
        self.pos = 0;
        self.conds.clear();
        self.events.clear();
        self.depth = 0;
        self.loc_stack.clear();
        self.alloc_tys.clear();
    }

    /// advance the decision script to the next unexplored path; false when exhausted
    pub fn next_script(&mut self) -> bool {
        self.script.truncate(self.pos.max(0));
        while let Some((c, n)) = self.script.pop() {
            if c + 1 < n {
                self.script.push((c + 1, n));
                return true;
            }
        }
        false
    }

    pub fn decide(&mut self, arity: usize) -> usize {
        if self.pos < self.script.len() {
            let c = self.script[self.pos].0;
            self.pos += 1;
            c
        } else {
            self.script.push((0, arity));
            self.pos += 1;
            0
        }
    }

    pub fn new_alloc(&mut self, v: V<'tcx>, name: &str) -> usize {
        self.allocs.push(v);
        self.alloc_names.push(name.to_string());
        self.allocs.len() - 1
    }

    pub fn mono<T: ty::TypeFoldable<TyCtxt<'tcx>>>(&self, f: &Frame<'tcx>, t: T) -> T {
        f.inst.instantiate_mir_and_normalize_erasing_regions(self.tcx, tyenv(), EarlyBinder::bind(t))
    }

    pub fn ty_str(&self, t: Ty<'tcx>) -> String {
        format!("{}", t)
    }

    // ---------- inputs
    pub fn mk_input(&mut self, t: Ty<'tcx>, name: &str) -> R<V<'tcx>> {
        let tcx = self.tcx;
        Ok(match t.kind() {
            ty::Adt(a, _) if is_transparent_adt(tcx, a.did()) => self.mk_input(inner_of_transparent(tcx, t), name)?,
            ty::Adt(_, _) if is_tok(tcx, t) => V::T(self.terms.mk(Term::In(name.to_string(), "Tok".into()))),
            ty::Adt(a, _) if tcx.item_name(a.did()).as_str() == "Formatter" => V::T(self.terms.mk(Term::In(name.to_string(), "Formatter".into()))),
            ty::Adt(a, args) if a.is_struct() => {
                let mut v = vec![];
                for f in a.non_enum_variant().fields.iter() {
                    v.push(self.mk_input(f.ty(tcx, args), &format!("{}.{}", name, f.name))?);
                }
                V::Agg(v)
            }
            ty::Tuple(ts) => {
                let mut v = vec![];
                for (i, t) in ts.iter().enumerate() {
                    v.push(self.mk_input(t, &format!("{}.{}", name, i))?);
                }
                V::Agg(v)
            }
            ty::Array(e, n) => {
                let mut v = vec![];
                for i in 0..arr_len(tcx, *n) {
                    v.push(self.mk_input(*e, &format!("{}[{}]", name, i))?);
                }
                V::Agg(v)
            }
            ty::Float(_) | ty::Int(_) | ty::Uint(_) | ty::Bool => V::T(self.terms.mk(Term::In(name.to_string(), self.ty_str(t)))),
            ty::Ref(_, inner, _) => {
                let iv = self.mk_input(*inner, name)?;
                let a = self.new_alloc(iv, &format!("arg:{}", name));
                V::Ptr(Ptr { alloc: a, path: vec![], off: 0, sl: None })
            }
            ty::FnPtr(..) => V::OpaqueFn(name.to_string()),
            ty::Adt(a, _) if a.is_enum() => V::T(self.terms.mk(Term::In(name.to_string(), self.ty_str(t)))),
            _ => return unsup(format!("input type {}", t)),
        })
    }

    // ---------- tree navigation
    pub fn get<'a>(&mut self, alloc: usize, path: &[PE]) -> R<V<'tcx>> {
        let mut cur: V<'tcx> = V::Uninit;
        let mut c: &V<'tcx> = &self.allocs[alloc];
        let mut i = 0;
        while i < path.len() {
            match (c, path[i]) {
                (V::Agg(f), PE::F(k)) => {
                    if (k as usize) >= f.len() {
                        return unsup(format!("field {} out of range in {:?}", k, c));
                    }
                    c = &f[k as usize];
                }
                (V::Enum(v, _), PE::Variant(k)) => {
                    if *v != k {
                        return unsup(format!("downcast to variant {} of value with variant {}", k, v));
                    }
                }
                (V::Enum(_, f), PE::F(k)) => c = &f[k as usize],
                (V::T(_), _) => {
                    // symbolic aggregate: project symbolically
                    cur = c.clone();
                    let mut t = if let V::T(t) = cur { t } else { unreachable!() };
                    for pe in &path[i..] {
                        t = match pe {
                            PE::F(k) => self.terms.op(&format!("field:{}", k), vec![t]),
                            PE::Variant(k) => self.terms.op(&format!("variant:{}", k), vec![t]),
                        };
                    }
                    return Ok(V::T(t));
                }
                (V::Agg(_), PE::Variant(_)) => {}
                (o, pe) => return unsup(format!("path {:?} into {:?}", pe, o)),
            }
            i += 1;
        }
        let _ = &mut cur;
        Ok(c.clone())
    }

    pub fn get_mut(&mut self, alloc: usize, path: &[PE]) -> R<&mut V<'tcx>> {
        let mut c: &mut V<'tcx> = &mut self.allocs[alloc];
        for pe in path {
            c = match (c, *pe) {
                (V::Agg(f), PE::F(k)) => {
                    if (k as usize) >= f.len() {
                        return unsup("field out of range (write)");
                    }
                    &mut f[k as usize]
                }
                (V::Enum(_, f), PE::F(k)) => &mut f[k as usize],
                (c @ V::Enum(..), PE::Variant(_)) => c,
                (c @ V::Agg(_), PE::Variant(_)) => c,
                (o, pe) => return unsup(format!("write path {:?} into {:?}", pe, o)),
            };
        }
        Ok(c)
    }

    /// normalise a pointer + element leaf count into a concrete tree path
    pub fn resolve(&mut self, p: &Ptr, count: usize) -> R<Vec<PE>> {
        if p.off == 0 {
            let v = self.get(p.alloc, &p.path)?;
            if vleaves(&v) == count || !matches!(v, V::Agg(_)) || has_model(&v) {
                return Ok(p.path.clone());
            }
        }
        let v = self.get(p.alloc, &p.path)?;
        let mut sub = vec![];
        if !flat_sub(&v, p.off, count, &mut sub) {
            return unsup(format!("pointer at leaf offset {} (+{}) does not denote a subobject of {:?}", p.off, count, v));
        }
        let mut path = p.path.clone();
        path.extend(sub);
        Ok(path)
    }

    pub fn load(&mut self, p: &Ptr, t: Ty<'tcx>) -> R<V<'tcx>> {
        let n = leaf_count(self.tcx, t);
        if let Some((stride, len)) = p.sl {
            if matches!(t.kind(), ty::Slice(_) | ty::Str) {
                // whole slice value: list of elements
                let mut out = vec![];
                for k in 0..len {
                    let e = Ptr { alloc: p.alloc, path: p.path.clone(), off: p.off + k * stride, sl: None };
                    let path = self.resolve(&e, stride)?;
                    out.push(self.get(p.alloc, &path)?);
                }
                return Ok(V::Agg(out));
            }
        }
        let path = self.resolve(p, n)?;
        let v = self.get(p.alloc, &path)?;
        self.fit(v, t)
    }

    /// adapt a value to the shape of type `t` (same leaves)
    pub fn fit(&mut self, v: V<'tcx>, t: Ty<'tcx>) -> R<V<'tcx>> {
        if matches!(v, V::Agg(_)) {
            let want = mk_uninit(self.tcx, t);
            if !same_shape(&v, &want) {
                let mut l = vec![];
                flatten(&v, &mut l);
                if l.len() != vleaves(&want) {
                    // modelled library objects (iterators) do not have the leaf structure of their type
                    if l.iter().any(|x| matches!(x, V::SliceIter(..) | V::Obj(..))) {
                        return Ok(v);
                    }
                    return unsup(format!("reshape {} leaves into {}", l.len(), t));
                }
                return Ok(reshape(self.tcx, t, &mut l.into_iter()));
            }
        }
        Ok(v)
    }

    pub fn store(&mut self, p: &Ptr, t: Ty<'tcx>, v: V<'tcx>) -> R<()> {
        let n = leaf_count(self.tcx, t);
        let path = self.resolve(p, n)?;
        let slot = self.get_mut(p.alloc, &path)?;
        if let (V::Agg(_), V::Agg(_)) = (&*slot, &v) {
            if !same_shape(slot, &v) {
                let mut l = vec![];
                flatten(&v, &mut l);
                if l.len() == vleaves(slot) {
                    let mut it = l.into_iter();
                    fill(slot, &mut it);
                    return Ok(());
                }
                // modelled library objects do not have the leaf structure of their type: replace wholesale
            }
        }
        *slot = v;
        Ok(())
    }

    // ---------- terms
    pub fn lift(&mut self, v: &V<'tcx>, t: Ty<'tcx>) -> R<Tid> {
        match v {
            V::T(t) => Ok(*t),
            V::Int(i) => Ok(self.terms.mk(Term::CInt(*i, self.ty_str(t)))),
            V::Uninit => {
                self.events.push(Event::BadRead("uninit".into()));
                unsup("read of uninitialised scalar")
            }
            V::Moved => {
                self.events.push(Event::BadRead("moved".into()));
                unsup("read of moved-out value")
            }
            o => unsup(format!("cannot lift {:?} to a term", o)),
        }
    }

    pub fn leaves_of(&mut self, v: &V<'tcx>, t: Ty<'tcx>, out: &mut Vec<Tid>) -> R<()> {
        let tcx = self.tcx;
        match (v, t.kind()) {
            (V::Ptr(p), ty::Ref(_, inner, _)) | (V::Ptr(p), ty::RawPtr(inner, _)) => {
                let iv = self.load(p, *inner)?;
                self.leaves_of(&iv, *inner, out)
            }
            (V::Agg(f), ty::Adt(a, _)) if is_transparent_adt(tcx, a.did()) => {
                let _ = f;
                self.leaves_of(v, inner_of_transparent(tcx, t), out)
            }
            (V::Agg(f), ty::Adt(a, args)) if a.is_struct() => {
                let tys: Vec<Ty<'tcx>> = a.non_enum_variant().fields.iter().map(|fd| fd.ty(tcx, args)).collect();
                for (x, ft) in f.iter().zip(tys) {
                    self.leaves_of(x, ft, out)?;
                }
                Ok(())
            }
            (V::Agg(f), ty::Tuple(ts)) => {
                for (x, ft) in f.iter().zip(ts.iter()) {
                    self.leaves_of(x, ft, out)?;
                }
                Ok(())
            }
            (V::Agg(f), ty::Array(e, _)) | (V::Agg(f), ty::Slice(e)) => {
                for x in f {
                    self.leaves_of(x, *e, out)?;
                }
                Ok(())
            }
            (V::Enum(var, f), ty::Adt(a, args)) => {
                let vt = self.terms.mk(Term::CInt(*var as i128, "variant".into()));
                out.push(vt);
                let tys: Vec<Ty<'tcx>> = a.variant(rustc_abi::VariantIdx::from_u32(*var)).fields.iter().map(|fd| fd.ty(tcx, args)).collect();
                for (x, ft) in f.iter().zip(tys) {
                    self.leaves_of(x, ft, out)?;
                }
                Ok(())
            }
            (V::Agg(f), _) if f.is_empty() => Ok(()),
            (V::OpaqueFn(n), _) => {
                let t = self.terms.op(&format!("fn:{}", n), vec![]);
                out.push(t);
                Ok(())
            }
            (V::FnDef(d, _), _) => {
                let t = self.terms.op(&format!("fn:{}", tcx.def_path_str(*d)), vec![]);
                out.push(t);
                Ok(())
            }
            (V::Str(s), _) => {
                let t = self.terms.op(&format!("str:{}", s), vec![]);
                out.push(t);
                Ok(())
            }
            (x, _) => {
                let l = self.lift(x, t)?;
                out.push(l);
                Ok(())
            }
        }
    }

    /// build a symbolic value of type `t` whose leaves are projections of term `base`
    pub fn symbolic_of(&mut self, base: Tid, t: Ty<'tcx>) -> V<'tcx> {
        let n = leaf_count(self.tcx, t);
        if n == 1 && !matches!(t.kind(), ty::Adt(a, _) if a.is_struct() && !is_tok(self.tcx, t)) && !matches!(t.kind(), ty::Tuple(_) | ty::Array(..)) {
            return V::T(base);
        }
        if n == 0 {
            return mk_uninit(self.tcx, t);
        }
        let leaves: Vec<V<'tcx>> = (0..n).map(|k| V::T(self.terms.op(&format!("ret:{}", k), vec![base]))).collect();
        reshape(self.tcx, t, &mut leaves.into_iter())
    }
}

pub fn has_model(v: &V) -> bool {
    match v {
        V::Agg(f) => f.iter().any(has_model),
        V::SliceIter(..) | V::Obj(..) => true,
        _ => false,
    }
}

pub fn same_shape(a: &V, b: &V) -> bool {
    match (a, b) {
        (V::Agg(x), V::Agg(y)) => x.len() == y.len() && x.iter().zip(y).all(|(p, q)| same_shape(p, q)),
        (V::Agg(_), _) | (_, V::Agg(_)) => false,
        _ => true,
    }
}

fn fill<'tcx>(slot: &mut V<'tcx>, it: &mut std::vec::IntoIter<V<'tcx>>) {
    match slot {
        V::Agg(f) => {
            for x in f {
                fill(x, it)
            }
        }
        s => {
            if let Some(v) = it.next() {
                *s = v
            }
        }
    }
}

// ---------------------------------------------------------------- places, operands, rvalues
pub struct PlaceRef {
    pub alloc: usize,
    pub path: Vec<PE>,
    pub off: usize,
    pub sl: Option<(usize, usize)>,
    /// set when the current position is `off` leaves into the subtree (unresolved flat view)
    pub flat: bool,
}

impl<'tcx> M<'tcx> {
    pub fn place(&mut self, f: &Frame<'tcx>, p: &Place<'tcx>) -> R<(Ptr, Ty<'tcx>)> {
        let tcx = self.tcx;
        let mut cur = Ptr { alloc: f.locals[p.local.as_usize()], path: vec![], off: 0, sl: None };
        let mut pty = mir::PlaceTy::from_ty(self.mono(f, f.body.local_decls[p.local].ty));
        for e in p.projection.iter() {
            let base_ty = pty.ty;
            match e {
                ProjectionElem::Deref => {
                    let n = leaf_count(tcx, base_ty);
                    let path = self.resolve(&cur, n)?;
                    let v = self.get(cur.alloc, &path)?;
                    match v {
                        V::Ptr(q) => cur = q,
                        V::Moved | V::Uninit => return unsup(format!("deref of {:?}", v)),
                        o => return unsup(format!("deref of non-pointer {:?}", o)),
                    }
                }
                ProjectionElem::Field(fi, _) => {
                    if is_transparent(tcx, base_ty) || matches!(base_ty.kind(), ty::Adt(a, _) if a.is_union()) {
                        // flattened wrapper
                    } else if let (Some(sl), ty::Adt(a, args), 0) = (cur.sl, base_ty.kind(), cur.off) {
                        // pointer to a struct with an unsized slice tail (coerced from the array-tailed struct): the metadata goes to the tail field
                        let nf = a.non_enum_variant().fields.len();
                        let last_is_slice = a.non_enum_variant().fields.iter().last().map_or(false, |fd| matches!(fd.ty(tcx, args).kind(), ty::Slice(_)));
                        let mut path = cur.path.clone();
                        path.push(PE::F(fi.as_u32()));
                        let keep = fi.as_usize() + 1 == nf && last_is_slice;
                        cur = Ptr { alloc: cur.alloc, path, off: 0, sl: if keep { Some(sl) } else { None } };
                    } else {
                        let n = leaf_count(tcx, base_ty);
                        let mut path = self.resolve(&cur, n)?;
                        if let Some(v) = pty.variant_index {
                            if !matches!(path.last(), Some(PE::Variant(_))) {
                                path.push(PE::Variant(v.as_u32()));
                            }
                        }
                        path.push(PE::F(fi.as_u32()));
                        cur = Ptr { alloc: cur.alloc, path, off: 0, sl: None };
                    }
                }
                ProjectionElem::Downcast(_, v) => {
                    let n = leaf_count(tcx, base_ty);
                    let mut path = self.resolve(&cur, n)?;
                    path.push(PE::Variant(v.as_u32()));
                    cur = Ptr { alloc: cur.alloc, path, off: 0, sl: None };
                }
                ProjectionElem::Index(l) => {
                    let iv = self.allocs[f.locals[l.as_usize()]].clone();
                    let V::Int(k) = iv else { return unsup(format!("non-constant index {:?}", iv)) };
                    cur = self.index(cur, base_ty, k as usize)?;
                }
                ProjectionElem::ConstantIndex { offset, from_end, .. } => {
                    let len = match (base_ty.kind(), cur.sl) {
                        (ty::Array(_, n), _) => arr_len(tcx, *n),
                        (_, Some((_, l))) => l,
                        _ => return unsup("constant index on unknown length"),
                    };
                    let k = if from_end { len - offset as usize } else { offset as usize };
                    cur = self.index(cur, base_ty, k)?;
                }
                ProjectionElem::Subslice { from, to, from_end } => {
                    let (stride, len) = match (base_ty.kind(), cur.sl) {
                        (ty::Array(e, n), _) => (leaf_count(tcx, *e), arr_len(tcx, *n)),
                        (_, Some(s)) => s,
                        _ => return unsup("subslice on unknown length"),
                    };
                    let end = if from_end { len - to as usize } else { to as usize };
                    cur = Ptr { alloc: cur.alloc, path: cur.path, off: cur.off + from as usize * stride, sl: Some((stride, end - from as usize)) };
                }
                ProjectionElem::OpaqueCast(_) | ProjectionElem::UnwrapUnsafeBinder(_) => {}
            }
            pty = pty.projection_ty(tcx, self.mono_elem(f, e));
        }
        Ok((cur, pty.ty))
    }

    fn mono_elem(&self, f: &Frame<'tcx>, e: PlaceElem<'tcx>) -> PlaceElem<'tcx> {
        match e {
            ProjectionElem::Field(i, t) => ProjectionElem::Field(i, self.mono(f, t)),
            ProjectionElem::OpaqueCast(t) => ProjectionElem::OpaqueCast(self.mono(f, t)),
            o => o,
        }
    }

    pub fn index(&mut self, cur: Ptr, base_ty: Ty<'tcx>, k: usize) -> R<Ptr> {
        let tcx = self.tcx;
        match base_ty.kind() {
            ty::Array(e, n) => {
                if k >= arr_len(tcx, *n) {
                    return Err(Stop::Panic("index out of bounds".into()));
                }
                let stride = leaf_count(tcx, *e);
                Ok(Ptr { alloc: cur.alloc, path: cur.path, off: cur.off + k * stride, sl: None })
            }
            ty::Slice(e) => {
                let Some((stride, len)) = cur.sl else { return unsup("index into slice without metadata") };
                let _ = e;
                if k >= len {
                    return Err(Stop::Panic("index out of bounds".into()));
                }
                Ok(Ptr { alloc: cur.alloc, path: cur.path, off: cur.off + k * stride, sl: None })
            }
            _ => unsup(format!("index into {}", base_ty)),
        }
    }

    pub fn read_place(&mut self, f: &Frame<'tcx>, p: &Place<'tcx>) -> R<(V<'tcx>, Ty<'tcx>, Ptr)> {
        let (ptr, t) = self.place(f, p)?;
        let v = self.load(&ptr, t)?;
        Ok((v, t, ptr))
    }

    pub fn const_val(&mut self, f: &Frame<'tcx>, c: &ConstOperand<'tcx>) -> R<V<'tcx>> {
        let tcx = self.tcx;
        let c = self.mono(f, c.const_);
        let t = c.ty();
        // promoted constants (`&Some(Ordering::Less)`, `&Some(1.0)`, ...): interpret the promoted body, return a reference to its value
        if let rustc_middle::mir::Const::Unevaluated(uv, _) = c {
            if let (Some(pi), ty::Ref(..)) = (uv.promoted, t.kind()) {
                let bodies = tcx.promoted_mir(uv.def);
                if let Some(body) = bodies.get(pi) {
                    let inst = Instance::new_raw(uv.def, uv.args);
                    let v = self.run_promoted(inst, body)?;
                    if matches!(v, V::Ptr(_)) {
                        // the promoted body itself returns the reference to its (leaked) local
                        return Ok(v);
                    }
                    let a = self.new_alloc(v, "promoted");
                    return Ok(V::Ptr(Ptr { alloc: a, path: vec![], off: 0, sl: None }));
                }
            }
        }
        if let ty::FnDef(d, a) = t.kind() {
            return Ok(V::FnDef(*d, a));
        }
        if is_scalar_ty(t) {
            if let Some(si) = c.try_eval_scalar_int(tcx, tyenv()) {
                let bits = si.to_bits_unchecked();
                if let ty::Float(ft) = t.kind() {
                    return Ok(V::T(self.terms.mk(Term::CFloat(bits, ft.bit_width() as u32))));
                }
                return Ok(V::Int(int_norm(tcx, t, bits as i128)));
            }
            return unsup(format!("cannot evaluate scalar constant {:?}", c));
        }
        if leaf_count(tcx, t) == 0 {
            return Ok(mk_uninit(tcx, t));
        }
        // string literals
        if let ty::Ref(_, inner, _) = t.kind() {
            if inner.is_str() {
                if let Ok(val) = c.eval(tcx, tyenv(), rustc_span::DUMMY_SP) {
                    if let Some(bytes) = val.try_get_slice_bytes_for_diagnostics(tcx) {
                        return Ok(V::Str(String::from_utf8_lossy(bytes).to_string()));
                    }
                }
            }
        }
        // references to constant data (promoteds, byte-string templates)
        if let ty::Ref(_, inner, _) = t.kind() {
            if let Ok(ConstValue::Scalar(rustc_middle::mir::interpret::Scalar::Ptr(ptr, _))) = c.eval(tcx, tyenv(), rustc_span::DUMMY_SP) {
                let (prov, off) = ptr.prov_and_relative_offset();
                if let Some(rustc_middle::mir::interpret::GlobalAlloc::Memory(alloc)) = tcx.try_get_global_alloc(prov.alloc_id()) {
                    let alloc = alloc.inner();
                    let start = off.bytes() as usize;
                    let all = alloc.inspect_with_uninit_and_ptr_outside_interpreter(0..alloc.len());
                    if let Ok(l) = tcx.layout_of(tyenv().as_query_input(*inner)) {
                        let size = l.size.bytes() as usize;
                        if start + size <= all.len() {
                            let bytes = &all[start..start + size];
                            if let Some(v) = self.bytes_to_value(bytes, *inner) {
                                let a = self.new_alloc(v, "const");
                                return Ok(V::Ptr(Ptr { alloc: a, path: vec![], off: 0, sl: None }));
                            }
                        }
                    }
                }
            }
        }
        // `const { MaybeUninit::uninit() }` (array::from_fn / map): an uninitialised slot
        if let ty::Adt(a, _) = t.kind() {
            if tcx.def_path_str(a.did()).ends_with("MaybeUninit") {
                if let Ok(val) = c.eval(tcx, tyenv(), rustc_span::DUMMY_SP) {
                    if val.all_bytes_uninit(tcx) {
                        return Ok(mk_uninit(tcx, t));
                    }
                }
            }
        }
        // structured constants (arrays / structs of scalars)
        if let Ok(val) = c.eval(tcx, tyenv(), rustc_span::DUMMY_SP) {
            if let Some(v) = self.destructure(val, t)? {
                return Ok(v);
            }
        }
        unsup(format!("constant {:?} of type {}", c, t))
    }

    fn bytes_to_value(&mut self, bytes: &[u8], t: Ty<'tcx>) -> Option<V<'tcx>> {
        let tcx = self.tcx;
        match t.kind() {
            ty::Int(_) | ty::Uint(_) | ty::Bool | ty::Char => {
                let mut v: u128 = 0;
                for (i, b) in bytes.iter().enumerate() {
                    v |= (*b as u128) << (8 * i);
                }
                Some(V::Int(int_norm(tcx, t, v as i128)))
            }
            ty::Float(ft) => {
                let mut v: u128 = 0;
                for (i, b) in bytes.iter().enumerate() {
                    v |= (*b as u128) << (8 * i);
                }
                Some(V::T(self.terms.mk(Term::CFloat(v, ft.bit_width() as u32))))
            }
            ty::Array(e, _) if matches!(e.kind(), ty::Uint(ty::UintTy::U8)) => Some(V::Str(String::from_utf8_lossy(bytes).to_string())),
            ty::Array(e, n) => {
                let n = arr_len(tcx, *n);
                if n == 0 {
                    return Some(V::Agg(vec![]));
                }
                let sz = bytes.len() / n;
                let mut out = vec![];
                for i in 0..n {
                    out.push(self.bytes_to_value(&bytes[i * sz..(i + 1) * sz], *e)?);
                }
                Some(V::Agg(out))
            }
            _ => None,
        }
    }

    fn destructure(&mut self, val: ConstValue, t: Ty<'tcx>) -> R<Option<V<'tcx>>> {
        let tcx = self.tcx;
        if is_scalar_ty(t) {
            if let Some(s) = val.try_to_scalar_int() {
                let bits = s.to_bits_unchecked();
                if let ty::Float(ft) = t.kind() {
                    return Ok(Some(V::T(self.terms.mk(Term::CFloat(bits, ft.bit_width() as u32)))));
                }
                return Ok(Some(V::Int(int_norm(tcx, t, bits as i128))));
            }
            return Ok(None);
        }
        match t.kind() {
            ty::Adt(a, _) if a.is_enum() => {
                let Some(d) = tcx.try_destructure_mir_constant_for_user_output(val, t) else { return Ok(None) };
                let Some(var) = d.variant else { return Ok(None) };
                let mut fs = vec![];
                for (fv, ft) in d.fields.iter() {
                    match self.destructure(*fv, *ft)? {
                        Some(v) => fs.push(v),
                        None => return Ok(None),
                    }
                }
                Ok(Some(V::Enum(var.as_u32(), fs)))
            }
            ty::Adt(..) | ty::Tuple(_) | ty::Array(..) => {
                let Some(d) = tcx.try_destructure_mir_constant_for_user_output(val, t) else { return Ok(None) };
                let mut fs = vec![];
                for (fv, ft) in d.fields.iter() {
                    match self.destructure(*fv, *ft)? {
                        Some(v) => fs.push(v),
                        None => return Ok(None),
                    }
                }
                let v = V::Agg(fs);
                Ok(Some(self.fit(v, t)?))
            }
            _ => Ok(None),
        }
    }

    pub fn operand(&mut self, f: &Frame<'tcx>, o: &Operand<'tcx>) -> R<(V<'tcx>, Ty<'tcx>)> {
        match o {
            Operand::Copy(p) => {
                let (v, t, _) = self.read_place(f, p)?;
                self.check_live(&v)?;
                Ok((v, t))
            }
            Operand::Move(p) => {
                let (v, t, ptr) = self.read_place(f, p)?;
                self.check_live(&v)?;
                if t.needs_drop(self.tcx, tyenv()) {
                    // ownership transfer: the source is no longer usable
                    let moved = mark_moved(&v);
                    self.store(&ptr, t, moved)?;
                }
                Ok((v, t))
            }
            Operand::Constant(c) => {
                let v = self.const_val(f, c)?;
                let t = self.mono(f, c.const_.ty());
                Ok((v, t))
            }
            // ub_checks / contract_checks / overflow_checks of core's own bodies: off (as in a release build of core)
            Operand::RuntimeChecks(_) => Ok((V::Int(0), self.tcx.types.bool)),
        }
    }

    fn check_live(&mut self, v: &V<'tcx>) -> R<()> {
        match v {
            V::Moved => {
                self.events.push(Event::BadRead("use of a moved-out value".into()));
                Ok(())
            }
            V::Agg(f) => {
                for x in f {
                    self.check_live(x)?;
                }
                Ok(())
            }
            _ => Ok(()),
        }
    }

    pub fn write_place(&mut self, f: &Frame<'tcx>, p: &Place<'tcx>, v: V<'tcx>) -> R<()> {
        let (ptr, t) = self.place(f, p)?;
        self.store(&ptr, t, v)
    }

    pub fn rvalue(&mut self, f: &Frame<'tcx>, rv: &Rvalue<'tcx>, dest_ty: Ty<'tcx>) -> R<V<'tcx>> {
        let tcx = self.tcx;
        match rv {
            Rvalue::Use(o, ..) => Ok(self.operand(f, o)?.0),
            Rvalue::Repeat(o, n) => {
                let (v, _) = self.operand(f, o)?;
                let n = arr_len(tcx, self.mono(f, *n));
                Ok(V::Agg((0..n).map(|_| v.clone()).collect()))
            }
            Rvalue::Ref(_, _, p) | Rvalue::RawPtr(_, p) => {
                // reborrow of a modelled fat reference (&str literal, &dyn Trait): the reference value itself
                if p.projection.len() == 1 && matches!(p.projection[0], ProjectionElem::Deref) {
                    let lv = self.allocs[f.locals[p.local.as_usize()]].clone();
                    if matches!(lv, V::Str(_) | V::Dyn(..)) {
                        return Ok(lv);
                    }
                }
                let (ptr, _) = self.place(f, p)?;
                Ok(V::Ptr(ptr))
            }
            Rvalue::CopyForDeref(p) => Ok(self.read_place(f, p)?.0),
            Rvalue::Aggregate(k, ops) => {
                let mut vs = vec![];
                for o in ops.iter() {
                    vs.push(self.operand(f, o)?.0);
                }
                match &**k {
                    AggregateKind::Adt(did, vi, _, _, active) => {
                        let adt = tcx.adt_def(*did);
                        if adt.is_enum() {
                            Ok(V::Enum(vi.as_u32(), vs))
                        } else if is_transparent_adt(tcx, *did) || adt.is_union() {
                            let _ = active;
                            Ok(vs.into_iter().next().unwrap_or(V::unit()))
                        } else {
                            Ok(V::Agg(vs))
                        }
                    }
                    AggregateKind::RawPtr(..) => {
                        // (data pointer, metadata)
                        match (&vs[0], &vs[1]) {
                            (V::Ptr(p), V::Int(n)) => {
                                let ty::RawPtr(inner, _) = dest_ty.kind() else { return unsup("rawptr aggregate type") };
                                let stride = match inner.kind() {
                                    ty::Slice(e) => leaf_count(tcx, *e),
                                    _ => return unsup("rawptr aggregate pointee"),
                                };
                                Ok(V::Ptr(Ptr { alloc: p.alloc, path: p.path.clone(), off: p.off, sl: Some((stride, *n as usize)) }))
                            }
                            (V::Ptr(p), _) => Ok(V::Ptr(p.clone())),
                            _ => unsup("rawptr aggregate"),
                        }
                    }
                    _ => Ok(V::Agg(vs)),
                }
            }
            Rvalue::Cast(kind, o, t) => {
                let (v, from_ty) = self.operand(f, o)?;
                let to = self.mono(f, *t);
                self.cast(*kind, v, from_ty, to)
            }
            Rvalue::Discriminant(p) => {
                let (v, t, _) = self.read_place(f, p)?;
                match v {
                    V::Enum(var, _) => {
                        // discriminant value of that variant
                        if let ty::Adt(a, _) = t.kind() {
                            let d = a.discriminant_for_variant(tcx, rustc_abi::VariantIdx::from_u32(var));
                            Ok(V::Int(int_norm(tcx, t.discriminant_ty(tcx), d.val as i128)))
                        } else {
                            Ok(V::Int(var as i128))
                        }
                    }
                    V::T(x) => Ok(V::T(self.terms.op("discr", vec![x]))),
                    V::Uninit => {
                        // an enum with a single inhabited variant (Option<Infallible>): optimised MIR reads its discriminant without ever writing it
                        if let (ty::Adt(a, _), Ok(l)) = (t.kind(), tcx.layout_of(tyenv().as_query_input(t))) {
                            if let rustc_abi::Variants::Single { index } = l.variants {
                                if a.is_enum() {
                                    let d = a.discriminant_for_variant(tcx, index);
                                    return Ok(V::Int(int_norm(tcx, t.discriminant_ty(tcx), d.val as i128)));
                                }
                            }
                        }
                        unsup("discriminant of an uninitialised value")
                    }
                    o => unsup(format!("discriminant of {:?}", o)),
                }
            }
            Rvalue::UnaryOp(op, o) => {
                let (v, t) = self.operand(f, o)?;
                match (op, v) {
                    (UnOp::PtrMetadata, V::Ptr(p)) => match p.sl {
                        Some((_, n)) => Ok(V::Int(n as i128)),
                        None => Ok(V::unit()),
                    },
                    (UnOp::Not, V::Int(a)) => {
                        if t.is_bool() {
                            Ok(V::Int((a == 0) as i128))
                        } else {
                            Ok(V::Int(int_norm(tcx, t, !a)))
                        }
                    }
                    (UnOp::Neg, V::Int(a)) => Ok(V::Int(int_norm(tcx, t, a.wrapping_neg()))),
                    (UnOp::Not, V::T(x)) => Ok(V::T(self.terms.op(if t.is_bool() { "not" } else { "bitnot" }, vec![x]))),
                    (UnOp::Neg, V::T(x)) => Ok(V::T(self.terms.op("neg", vec![x]))),
                    (op, v) => unsup(format!("unary {:?} on {:?}", op, v)),
                }
            }
            Rvalue::BinaryOp(op, b) => {
                let (l, lt) = self.operand(f, &b.0)?;
                let (r, rt) = self.operand(f, &b.1)?;
                self.binop(*op, l, lt, r, rt)
            }
            Rvalue::ThreadLocalRef(_) => unsup("thread local"),
            o => unsup(format!("rvalue {:?}", o)),
        }
    }

    pub fn cast(&mut self, kind: CastKind, v: V<'tcx>, from: Ty<'tcx>, to: Ty<'tcx>) -> R<V<'tcx>> {
        let tcx = self.tcx;
        match kind {
            CastKind::IntToInt => match v {
                V::Int(a) => Ok(V::Int(int_norm(tcx, to, a))),
                V::T(x) => Ok(V::T(self.terms.op(&format!("cast:{}:{}", from, to), vec![x]))),
                V::Enum(var, _) => {
                    if let ty::Adt(a, _) = from.kind() {
                        let d = a.discriminant_for_variant(tcx, rustc_abi::VariantIdx::from_u32(var));
                        Ok(V::Int(int_norm(tcx, to, d.val as i128)))
                    } else {
                        unsup("enum cast")
                    }
                }
                o => unsup(format!("IntToInt of {:?}", o)),
            },
            CastKind::IntToFloat if matches!(v, V::Int(k) if k.abs() < (1 << 24)) => {
                // small integer constants convert exactly
                let V::Int(k) = v else { unreachable!() };
                match to.kind() {
                    ty::Float(ft) if ft.bit_width() == 32 => Ok(V::T(self.terms.mk(Term::CFloat((k as f32).to_bits() as u128, 32)))),
                    ty::Float(ft) if ft.bit_width() == 64 => Ok(V::T(self.terms.mk(Term::CFloat((k as f64).to_bits() as u128, 64)))),
                    _ => unsup("int to float cast target"),
                }
            }
            CastKind::FloatToInt | CastKind::IntToFloat | CastKind::FloatToFloat => {
                let x = self.lift(&v, from)?;
                Ok(V::T(self.terms.op(&format!("cast:{}:{}", from, to), vec![x])))
            }
            CastKind::PtrToPtr | CastKind::FnPtrToPtr => match v {
                V::Ptr(mut p) => {
                    // keep slice metadata only if the target is still a slice pointer
                    let pointee = match to.kind() {
                        ty::RawPtr(i, _) | ty::Ref(_, i, _) => *i,
                        _ => to,
                    };
                    if !matches!(pointee.kind(), ty::Slice(_) | ty::Str) {
                        p.sl = None;
                    }
                    Ok(V::Ptr(p))
                }
                o => Ok(o),
            },
            CastKind::PointerCoercion(pc, _) => {
                use rustc_middle::ty::adjustment::PointerCoercion as PC;
                match pc {
                    PC::Unsize => {
                        let (fi, ti) = match (from.kind(), to.kind()) {
                            (ty::Ref(_, a, _), ty::Ref(_, b, _)) | (ty::RawPtr(a, _), ty::RawPtr(b, _)) | (ty::Ref(_, a, _), ty::RawPtr(b, _)) => (*a, *b),
                            _ => return unsup(format!("unsize {} -> {}", from, to)),
                        };
                        match (fi.kind(), ti.kind(), v) {
                            (ty::Array(e, n), ty::Slice(_), V::Ptr(p)) => {
                                let stride = leaf_count(tcx, *e);
                                Ok(V::Ptr(Ptr { alloc: p.alloc, path: p.path, off: p.off, sl: Some((stride, arr_len(tcx, *n))) }))
                            }
                            (_, ty::Dynamic(..), V::Ptr(p)) => Ok(V::Dyn(p, fi)),
                            (ty::Adt(a, aargs), ty::Adt(b, _), V::Ptr(p)) if a.did() == b.did() && a.is_struct() => {
                                // struct with an array tail -> the same struct with a slice tail
                                let Some(last) = a.non_enum_variant().fields.iter().last() else { return unsup("unsize of a fieldless struct") };
                                match last.ty(tcx, aargs).kind() {
                                    ty::Array(e, n) => Ok(V::Ptr(Ptr { alloc: p.alloc, path: p.path, off: p.off, sl: Some((leaf_count(tcx, *e), arr_len(tcx, *n))) })),
                                    _ => unsup(format!("unsize {} -> {}", from, to)),
                                }
                            }
                            _ => unsup(format!("unsize {} -> {}", from, to)),
                        }
                    }
                    PC::ClosureFnPointer(_) => match from.kind() {
                        // a capture-less closure used as a fn pointer: callable by its body
                        ty::Closure(cd, cargs) => Ok(V::FnDef(*cd, cargs)),
                        _ => Ok(v),
                    },
                    PC::ReifyFnPointer(_) | PC::UnsafeFnPointer | PC::MutToConstPointer | PC::ArrayToPointer => Ok(v),
                    _ => unsup("pointer coercion"),
                }
            }
            CastKind::Transmute | CastKind::Subtype => {
                if matches!(v, V::Ptr(_)) {
                    return Ok(v);
                }
                // Option<NonZero<_>> <-> integer (how core builds NonZero::new): the niche is zero
                if let (V::Int(k), Some(pt)) = (&v, niche_zero_option(tcx, to)) {
                    if from.is_integral() {
                        return Ok(if *k == 0 { V::Enum(0, vec![]) } else { V::Enum(1, vec![reshape(tcx, pt, &mut vec![V::Int(*k)].into_iter())]) });
                    }
                }
                if let (V::Enum(var, fs), Some(_)) = (&v, niche_zero_option(tcx, from)) {
                    if to.is_integral() {
                        if *var == 0 {
                            return Ok(V::Int(0));
                        }
                        let mut l = vec![];
                        for x in fs {
                            flatten(x, &mut l);
                        }
                        if l.len() == 1 {
                            return Ok(l.pop().unwrap());
                        }
                    }
                }
                let mut l = vec![];
                flatten(&v, &mut l);
                if l.len() != leaf_count(tcx, to) {
                    return unsup(format!("transmute {} -> {} changes the leaf count", from, to));
                }
                self.events.push(Event::Note(format!("transmute {} -> {}", from, to)));
                Ok(reshape(tcx, to, &mut l.into_iter()))
            }
            k => unsup(format!("cast kind {:?}", k)),
        }
    }

    pub fn binop(&mut self, op: BinOp, l: V<'tcx>, lt: Ty<'tcx>, r: V<'tcx>, rt: Ty<'tcx>) -> R<V<'tcx>> {
        let tcx = self.tcx;
        if let (V::T(x), V::T(y)) = (&l, &r) {
            if let (Some(a), Some(b)) = (self.cfloat(*x), self.cfloat(*y)) {
                let r = match op {
                    BinOp::Lt => Some(a < b),
                    BinOp::Le => Some(a <= b),
                    BinOp::Gt => Some(a > b),
                    BinOp::Ge => Some(a >= b),
                    BinOp::Eq => Some(a == b),
                    BinOp::Ne => Some(a != b),
                    _ => None,
                };
                if let Some(r) = r {
                    return Ok(V::Int(r as i128));
                }
            }
        }
        if let (V::Int(a), V::Int(b)) = (&l, &r) {
            let (a, b) = (*a, *b);
            let n = |x: i128| V::Int(int_norm(tcx, lt, x));
            let bl = |x: bool| V::Int(x as i128);
            let bits = int_bits(tcx, lt);
            let ovf = |x: i128| int_norm(tcx, lt, x) != x;
            return Ok(match op {
                BinOp::Add | BinOp::AddUnchecked => n(a.wrapping_add(b)),
                BinOp::Sub | BinOp::SubUnchecked => n(a.wrapping_sub(b)),
                BinOp::Mul | BinOp::MulUnchecked => n(a.wrapping_mul(b)),
                BinOp::AddWithOverflow => V::Agg(vec![n(a + b), bl(ovf(a + b))]),
                BinOp::SubWithOverflow => V::Agg(vec![n(a - b), bl(ovf(a - b))]),
                BinOp::MulWithOverflow => V::Agg(vec![n(a.wrapping_mul(b)), bl(a.checked_mul(b).map_or(true, ovf))]),
                BinOp::Div => {
                    if b == 0 {
                        return Err(Stop::Panic("division by zero".into()));
                    }
                    n(a.wrapping_div(b))
                }
                BinOp::Rem => {
                    if b == 0 {
                        return Err(Stop::Panic("remainder by zero".into()));
                    }
                    n(a.wrapping_rem(b))
                }
                BinOp::BitAnd => n(a & b),
                BinOp::BitOr => n(a | b),
                BinOp::BitXor => n(a ^ b),
                BinOp::Shl | BinOp::ShlUnchecked => n(a.wrapping_shl((b as u32) % bits.max(1))),
                BinOp::Shr | BinOp::ShrUnchecked => {
                    // a is already normalised (sign- or zero-extended), so >> is arithmetic / logical as required
                    n(a >> ((b as u32) % bits.max(1)))
                }
                BinOp::Eq => bl(a == b),
                BinOp::Ne => bl(a != b),
                BinOp::Lt => bl(a < b),
                BinOp::Le => bl(a <= b),
                BinOp::Gt => bl(a > b),
                BinOp::Ge => bl(a >= b),
                BinOp::Cmp => V::Enum(if a < b { 0 } else if a == b { 1 } else { 2 }, vec![]),
                BinOp::Offset => return unsup("offset on ints"),
            });
        }
        if let (V::Ptr(p), V::Int(k)) = (&l, &r) {
            if op == BinOp::Offset {
                let ty::RawPtr(inner, _) = lt.kind() else { return unsup("offset on non raw pointer") };
                let stride = leaf_count(tcx, *inner) as i128;
                let off = p.off as i128 + k * stride;
                if off < 0 {
                    return unsup("negative pointer offset");
                }
                return Ok(V::Ptr(Ptr { alloc: p.alloc, path: p.path.clone(), off: off as usize, sl: p.sl }));
            }
        }
        if let (V::Ptr(p), V::Ptr(q)) = (&l, &r) {
            let same = p.alloc == q.alloc && p.path == q.path && p.off == q.off;
            match op {
                BinOp::Eq => return Ok(V::Int(same as i128)),
                BinOp::Ne => return Ok(V::Int(!same as i128)),
                _ => return unsup("pointer comparison"),
            }
        }
        let a = self.lift(&l, lt)?;
        let b = self.lift(&r, rt)?;
        let name = match op {
            BinOp::Add | BinOp::AddUnchecked => "add",
            BinOp::Sub | BinOp::SubUnchecked => "sub",
            BinOp::Mul | BinOp::MulUnchecked => "mul",
            BinOp::Div => "div",
            BinOp::Rem => "rem",
            BinOp::BitAnd => {
                if lt.is_bool() {
                    "and"
                } else {
                    "bitand"
                }
            }
            BinOp::BitOr => {
                if lt.is_bool() {
                    "or"
                } else {
                    "bitor"
                }
            }
            BinOp::BitXor => "bitxor",
            BinOp::Shl | BinOp::ShlUnchecked => "shl",
            BinOp::Shr | BinOp::ShrUnchecked => "shr",
            BinOp::Eq => "eq",
            BinOp::Ne => "ne",
            BinOp::Lt => "lt",
            BinOp::Le => "le",
            BinOp::Gt => "gt",
            BinOp::Ge => "ge",
            BinOp::Cmp => "cmp3",
            BinOp::AddWithOverflow | BinOp::SubWithOverflow | BinOp::MulWithOverflow => {
                let n = match op {
                    BinOp::AddWithOverflow => "add",
                    BinOp::SubWithOverflow => "sub",
                    _ => "mul",
                };
                let res = self.terms.op(n, vec![a, b]);
                let o = self.terms.op(&format!("ovf:{}:{}", n, lt), vec![a, b]);
                self.events.push(Event::Ovf(format!("{}:{}", n, lt), res));
                return Ok(V::Agg(vec![V::T(res), V::T(o)]));
            }
            BinOp::Offset => return unsup("offset"),
        };
        let name = if lt.is_integral() && matches!(name, "add" | "sub" | "mul" | "div" | "rem" | "shl" | "shr") { format!("{}:{}", name, lt) } else { name.to_string() };
        Ok(V::T(self.terms.op(&name, vec![a, b])))
    }
}

pub fn mark_moved<'tcx>(v: &V<'tcx>) -> V<'tcx> {
    match v {
        V::Agg(f) => V::Agg(f.iter().map(mark_moved).collect()),
        V::T(_) | V::Enum(..) => V::Moved,
        o => o.clone(),
    }
}

#[allow(dead_code)]
pub fn field_idx(i: usize) -> FieldIdx {
    FieldIdx::from_usize(i)
}

#[allow(dead_code)]
pub fn inst_kind_is_item(i: &Instance<'_>) -> bool {
    matches!(i.def, InstanceKind::Item(_))
}

#[allow(dead_code)]
pub fn did_of(i: &Instance<'_>) -> DefId {
    i.def_id()
}

/// `Option<P>` whose `None` is the all-zero bit pattern of an integer-like payload (`NonZero<_>`): returns P
pub fn niche_zero_option<'tcx>(tcx: TyCtxt<'tcx>, t: Ty<'tcx>) -> Option<Ty<'tcx>> {
    if let ty::Adt(a, args) = t.kind() {
        if a.is_enum() && tcx.is_diagnostic_item(rustc_span::sym::Option, a.did()) {
            let p = args.types().next()?;
            if let ty::Adt(pa, _) = p.kind() {
                if tcx.def_path_str(pa.did()).contains("NonZero") {
                    return Some(p);
                }
            }
        }
    }
    None
}
