//! Rules that run inside vek's own compilation (all bodies of the crate).
//! Who-may-access inventory: every body with a place projection into a field of a consuming-iterator struct
//! (`IntoIter`), type-resolved on the MIR, so derive expansions and private helpers are seen.
use crate::terms::jstr;
use rustc_middle::mir::visit::{PlaceContext, Visitor};
use rustc_middle::mir::{Body, Location, Place, ProjectionElem};
use rustc_middle::ty::{self, TyCtxt};

struct Acc<'a, 'tcx> {
    tcx: TyCtxt<'tcx>,
    body: &'a Body<'tcx>,
    hits: Vec<(String, String, bool)>,
}

impl<'a, 'tcx> Visitor<'tcx> for Acc<'a, 'tcx> {
    fn visit_place(&mut self, place: &Place<'tcx>, ctx: PlaceContext, _loc: Location) {
        for (base, elem) in place.iter_projections() {
            if let ProjectionElem::Field(fi, _) = elem {
                let bt = base.ty(self.body, self.tcx).ty;
                if let ty::Adt(a, _) = bt.kind() {
                    if a.did().is_local() && self.tcx.item_name(a.did()).as_str() == "IntoIter" && a.is_struct() {
                        let fname = a.non_enum_variant().fields[fi].name.to_string();
                        // a projection that continues below the field in a mutating context, or ends at it
                        self.hits.push((self.tcx.def_path(a.did()).to_string_no_crate_verbose(), fname, ctx.is_mutating_use()));
                    }
                }
            }
        }
    }
}

pub fn run<'tcx>(tcx: TyCtxt<'tcx>) -> String {
    let mut rows = vec![];
    let mut bodies = 0usize;
    let mut adts = std::collections::BTreeMap::new();
    for ldid in tcx.hir_body_owners() {
        let did = ldid.to_def_id();
        if !matches!(tcx.def_kind(did), rustc_hir::def::DefKind::Fn | rustc_hir::def::DefKind::AssocFn | rustc_hir::def::DefKind::Closure) {
            continue;
        }
        bodies += 1;
        let body = tcx.optimized_mir(did);
        let mut v = Acc { tcx, body, hits: vec![] };
        v.visit_body(body);
        v.hits.sort();
        v.hits.dedup();
        for (adt, field, m) in v.hits {
            rows.push(format!("[{},{},{},{},{}]", jstr(&tcx.def_path(did).to_string_no_crate_verbose()), jstr(&tcx.def_path_str(did)), jstr(&adt), jstr(&field), m));
        }
    }
    // the iterator structs themselves: field names, field visibility, field types
    for ldid in tcx.hir_crate_items(()).definitions() {
        let did = ldid.to_def_id();
        if matches!(tcx.def_kind(did), rustc_hir::def::DefKind::Struct) && tcx.item_name(did).as_str() == "IntoIter" {
            let a = tcx.adt_def(did);
            let fs: Vec<String> = a
                .non_enum_variant()
                .fields
                .iter()
                .map(|f| format!("[{},{},{}]", jstr(f.name.as_str()), jstr(&format!("{:?}", f.vis)), jstr(&format!("{}", tcx.type_of(f.did).instantiate_identity().skip_norm_wip()))))
                .collect();
            adts.insert(tcx.def_path(did).to_string_no_crate_verbose(), format!("[{}]", fs.join(",")));
        }
    }
    // fingerprints: a normalised print of every body, hashed, keyed by crate-independent def-path (C20: a feature only adds items)
    let mut fps = vec![];
    let mut keys = vec![];
    for ldid in tcx.hir_body_owners() {
        let did = ldid.to_def_id();
        if !matches!(tcx.def_kind(did), rustc_hir::def::DefKind::Fn | rustc_hir::def::DefKind::AssocFn | rustc_hir::def::DefKind::Closure) {
            continue;
        }
        let body = tcx.optimized_mir(did);
        let mut txt = String::new();
        for (l, d) in body.local_decls.iter_enumerated() {
            txt.push_str(&format!("{:?}:{:?};", l, d.ty));
        }
        for (bb, data) in body.basic_blocks.iter_enumerated() {
            txt.push_str(&format!("{:?}:", bb));
            for st in &data.statements {
                txt.push_str(&format!("{:?};", st.kind));
            }
            txt.push_str(&format!("{:?}|", data.terminator().kind));
        }
        let txt = normalise(&txt);
        let mut h: u64 = 0xcbf29ce484222325;
        for b in txt.bytes() {
            h ^= b as u64;
            h = h.wrapping_mul(0x100000001b3);
        }
        let key = tcx.def_path_str(did);
        if let Ok(pat) = std::env::var("VEKSCAN_FPDUMP") {
            if key.contains(&pat) {
                eprintln!("FPDUMP {} :: {}", key, txt);
            }
        }
        fps.push(format!("{}:[\"{:016x}\",{}]", jstr(&key), h, txt.len()));
        let public = !matches!(tcx.def_kind(did), rustc_hir::def::DefKind::Closure) && tcx.visibility(did).is_public();
        let sp = tcx.def_span(did);
        let sm = tcx.sess.source_map();
        let lo = sm.lookup_char_pos(body.span.lo());
        let hi = sm.lookup_char_pos(body.span.hi());
        let _ = sp;
        let file = format!("{}", lo.file.name.prefer_local_unconditionally());
        keys.push(format!("{}:[{},{},{},{},{}]", jstr(&tcx.def_path(did).to_string_no_crate_verbose()), jstr(&key), public, jstr(&file), lo.line, hi.line));
    }
    let adtj: Vec<String> = adts.iter().map(|(k, v)| format!("{}:{}", jstr(k), v)).collect();
    format!("{{\"bodies\":{},\"intoiter_access\":[{}],\"intoiter_structs\":{{{}}},\"fingerprints\":{{{}}},\"bodykeys\":{{{}}}}}", bodies, rows.join(","), adtj.join(","), fps.join(","), keys.join(","))
}

/// strip crate-local numbering from Debug prints: `DefId(0:24 ~ vek[c083]::ops::X)` -> `DefId(vek::ops::X)`
fn normalise(s: &str) -> String {
    let mut out = String::with_capacity(s.len());
    let b = s.as_bytes();
    let mut i = 0;
    while i < b.len() {
        if s[i..].starts_with("DefId(") {
            if let Some(t) = s[i..].find(" ~ ") {
                // only when the tilde belongs to this DefId( ... ) group
                let close = s[i..].find(')').unwrap_or(usize::MAX);
                if t < close {
                    out.push_str("DefId(");
                    i += t + 3;
                    continue;
                }
            }
        }
        if b[i] == b'[' && i + 5 < b.len() && b[i + 5] == b']' && s[i + 1..i + 5].bytes().all(|c| c.is_ascii_hexdigit()) && s[i + 6..].starts_with("::") {
            i += 6;
            continue;
        }
        if s[i..].starts_with("{impl#") {
            if let Some(e) = s[i..].find('}') {
                if s[i + 6..i + e].bytes().all(|c| c.is_ascii_digit()) {
                    out.push_str("{impl}");
                    i += e + 1;
                    continue;
                }
            }
        }
        out.push(b[i] as char);
        i += 1;
    }
    out
}
