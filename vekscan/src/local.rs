//! Rules that run inside vek's own compilation (all bodies of the crate).
//! Who-may-access inventory: every body with a place projection into a field of a consuming-iterator struct
//! (`IntoIter`), type-resolved on the MIR, so derive expansions and private helpers are seen.
use crate::terms::jstr;
use rustc_middle::mir::visit::{PlaceContext, Visitor};
use rustc_middle::mir::{Body, Location, Place, ProjectionElem};
use rustc_middle::ty::{self, TyCtxt};

struct Acc<'a, 'tcx> {
    tcx: TyCtxt<'tcx>,
    body: &'a Body<'tcx>,
    hits: Vec<(String, String, bool)>,
}

impl<'a, 'tcx> Visitor<'tcx> for Acc<'a, 'tcx> {
    fn visit_place(&mut self, place: &Place<'tcx>, ctx: PlaceContext, _loc: Location) {
        for (base, elem) in place.iter_projections() {
            if let ProjectionElem::Field(fi, _) = elem {
                let bt = base.ty(self.body, self.tcx).ty;
                if let ty::Adt(a, _) = bt.kind() {
                    if a.did().is_local() && self.tcx.item_name(a.did()).as_str() == "IntoIter" && a.is_struct() {
                        let fname = a.non_enum_variant().fields[fi].name.to_string();
                        // a projection that continues below the field in a mutating context, or ends at it
                        self.hits.push((self.tcx.def_path(a.did()).to_string_no_crate_verbose(), fname, ctx.is_mutating_use()));
                    }
                }
            }
        }
    }
}

pub fn run<'tcx>(tcx: TyCtxt<'tcx>) -> String {
    let mut rows = vec![];
    let mut bodies = 0usize;
    let mut adts = std::collections::BTreeMap::new();
    for ldid in tcx.hir_body_owners() {
        let did = ldid.to_def_id();
        if !matches!(tcx.def_kind(did), rustc_hir::def::DefKind::Fn | rustc_hir::def::DefKind::AssocFn | rustc_hir::def::DefKind::Closure) {
            continue;
        }
        bodies += 1;
        let body = tcx.optimized_mir(did);
        let mut v = Acc { tcx, body, hits: vec![] };
        v.visit_body(body);
        v.hits.sort();
        v.hits.dedup();
        for (adt, field, m) in v.hits {
            rows.push(format!("[{},{},{},{},{}]", jstr(&tcx.def_path(did).to_string_no_crate_verbose()), jstr(&tcx.def_path_str(did)), jstr(&adt), jstr(&field), m));
        }
    }
    // the iterator structs themselves: field names, field visibility, field types
    for ldid in tcx.hir_crate_items(()).definitions() {
        let did = ldid.to_def_id();
        if matches!(tcx.def_kind(did), rustc_hir::def::DefKind::Struct) && tcx.item_name(did).as_str() == "IntoIter" {
            let a = tcx.adt_def(did);
            let fs: Vec<String> = a
                .non_enum_variant()
                .fields
                .iter()
                .map(|f| format!("[{},{},{}]", jstr(f.name.as_str()), jstr(&format!("{:?}", f.vis)), jstr(&format!("{}", tcx.type_of(f.did).instantiate_identity().skip_norm_wip()))))
                .collect();
            adts.insert(tcx.def_path(did).to_string_no_crate_verbose(), format!("[{}]", fs.join(",")));
        }
    }
    let adtj: Vec<String> = adts.iter().map(|(k, v)| format!("{}:{}", jstr(k), v)).collect();
    format!("{{\"bodies\":{},\"intoiter_access\":[{}],\"intoiter_structs\":{{{}}}}}", bodies, rows.join(","), adtj.join(","))
}
