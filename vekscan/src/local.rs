//! Rules that run inside vek's own compilation (all bodies of the crate).
//! Who-may-access inventory: every body with a place projection into a field of a consuming-iterator struct
//! (`IntoIter`), type-resolved on the MIR, so derive expansions and private helpers are seen.
use crate::terms::jstr;
use rustc_middle::mir::visit::{PlaceContext, Visitor};
use rustc_middle::mir::{Body, Location, Place, ProjectionElem};
use rustc_middle::ty::{self, TyCtxt};

struct Acc<'a, 'tcx> {
    tcx: TyCtxt<'tcx>,
    body: &'a Body<'tcx>,
    hits: Vec<(String, String, bool)>,
}

impl<'a, 'tcx> Visitor<'tcx> for Acc<'a, 'tcx> {
    fn visit_place(&mut self, place: &Place<'tcx>, ctx: PlaceContext, _loc: Location) {
        for (base, elem) in place.iter_projections() {
            if let ProjectionElem::Field(fi, _) = elem {
                let bt = base.ty(self.body, self.tcx).ty;
                if let ty::Adt(a, _) = bt.kind() {
                    if a.did().is_local() && self.tcx.item_name(a.did()).as_str() == "IntoIter" && a.is_struct() {
                        let fname = a.non_enum_variant().fields[fi].name.to_string();
                        // a projection that continues below the field in a mutating context, or ends at it
                        self.hits.push((self.tcx.def_path(a.did()).to_string_no_crate_verbose(), fname, ctx.is_mutating_use()));
                    }
                }
            }
        }
    }
}

pub fn run<'tcx>(tcx: TyCtxt<'tcx>) -> String {
    let mut rows = vec![];
    let mut bodies = 0usize;
    let mut adts = std::collections::BTreeMap::new();
    for ldid in tcx.hir_body_owners() {
        let did = ldid.to_def_id();
        if !matches!(tcx.def_kind(did), rustc_hir::def::DefKind::Fn | rustc_hir::def::DefKind::AssocFn | rustc_hir::def::DefKind::Closure) {
            continue;
        }
        bodies += 1;
        let body = tcx.optimized_mir(did);
        let mut v = Acc { tcx, body, hits: vec![] };
        v.visit_body(body);
        v.hits.sort();
        v.hits.dedup();
        for (adt, field, m) in v.hits {
            rows.push(format!("[{},{},{},{},{}]", jstr(&tcx.def_path(did).to_string_no_crate_verbose()), jstr(&tcx.def_path_str(did)), jstr(&adt), jstr(&field), m));
        }
    }
    // the iterator structs themselves: field names, field visibility, field types
    for ldid in tcx.hir_crate_items(()).definitions() {
        let did = ldid.to_def_id();
        if matches!(tcx.def_kind(did), rustc_hir::def::DefKind::Struct) && tcx.item_name(did).as_str() == "IntoIter" {
            let a = tcx.adt_def(did);
            let fs: Vec<String> = a
                .non_enum_variant()
                .fields
                .iter()
                .map(|f| format!("[{},{},{}]", jstr(f.name.as_str()), jstr(&format!("{:?}", f.vis)), jstr(&format!("{}", tcx.type_of(f.did).instantiate_identity().skip_norm_wip()))))
                .collect();
            adts.insert(tcx.def_path(did).to_string_no_crate_verbose(), format!("[{}]", fs.join(",")));
        }
    }
    // fingerprints: a normalised print of every body, hashed, keyed by crate-independent def-path (C20: a feature only adds items)
    let mut fps = vec![];
    let mut keys = vec![];
    let mut dbgs: Vec<String> = vec![];
    for ldid in tcx.hir_body_owners() {
        let did = ldid.to_def_id();
        if !matches!(tcx.def_kind(did), rustc_hir::def::DefKind::Fn | rustc_hir::def::DefKind::AssocFn | rustc_hir::def::DefKind::Closure) {
            continue;
        }
        let body = tcx.optimized_mir(did);
        let mut txt = String::new();
        for (l, d) in body.local_decls.iter_enumerated() {
            txt.push_str(&format!("{:?}:{:?};", l, d.ty));
        }
        // `debug_assert!` expands to `if cfg!(debug_assertions) { assert!(..) }`: the literal is the only thing that differs between a debug and a
        // release build of a body. It is masked in the fingerprint (configuration-invariance rule) and the asserted region is checked for purity.
        let mut dbg_sites: Vec<rustc_span::Span> = vec![];
        for (bb, data) in body.basic_blocks.iter_enumerated() {
            txt.push_str(&format!("{:?}:", bb));
            for st in &data.statements {
                if let rustc_middle::mir::StatementKind::Assign(b) = &st.kind {
                    if let rustc_middle::mir::Rvalue::Use(rustc_middle::mir::Operand::Constant(c), ..) = &b.1 {
                        if c.const_.ty().is_bool() {
                            if let Some(site) = debug_assert_site(st.source_info.span) {
                                txt.push_str(&format!("{:?} = const <cfg(debug_assertions)>;", b.0));
                                if !dbg_sites.iter().any(|d| same_span(*d, site)) {
                                    dbg_sites.push(site);
                                }
                                continue;
                            }
                        }
                    }
                }
                txt.push_str(&format!("{:?};", st.kind));
            }
            txt.push_str(&format!("{:?}|", data.terminator().kind));
        }
        if !dbg_sites.is_empty() {
            let impure = debug_region_impurities(tcx, body, &dbg_sites);
            dbgs.push(format!("{}:[{},[{}]]", jstr(&tcx.def_path_str(did)), dbg_sites.len(), impure.iter().map(|x| jstr(x)).collect::<Vec<_>>().join(",")));
        }
        let txt = normalise(&txt);
        let mut h: u64 = 0xcbf29ce484222325;
        for b in txt.bytes() {
            h ^= b as u64;
            h = h.wrapping_mul(0x100000001b3);
        }
        let key = tcx.def_path_str(did);
        if let Ok(pat) = std::env::var("VEKSCAN_FPDUMP") {
            if key.contains(&pat) {
                eprintln!("FPDUMP {} :: {}", key, txt);
            }
        }
        fps.push(format!("{}:[\"{:016x}\",{}]", jstr(&key), h, txt.len()));
        let public = !matches!(tcx.def_kind(did), rustc_hir::def::DefKind::Closure) && tcx.visibility(did).is_public();
        let sp = tcx.def_span(did);
        let sm = tcx.sess.source_map();
        let lo = sm.lookup_char_pos(body.span.lo());
        let hi = sm.lookup_char_pos(body.span.hi());
        let _ = sp;
        let file = format!("{}", lo.file.name.prefer_local_unconditionally());
        keys.push(format!("{}:[{},{},{},{},{}]", jstr(&tcx.def_path(did).to_string_no_crate_verbose()), jstr(&key), public, jstr(&file), lo.line, hi.line));
    }
    let adtj: Vec<String> = adts.iter().map(|(k, v)| format!("{}:{}", jstr(k), v)).collect();
    format!("{{\"bodies\":{},\"intoiter_access\":[{}],\"intoiter_structs\":{{{}}},\"fingerprints\":{{{}}},\"bodykeys\":{{{}}},\"debug_assert_bodies\":{{{}}},\"cfg_atoms\":[{}]}}", bodies, rows.join(","), adtj.join(","), fps.join(","), keys.join(","), dbgs.join(","), cfg_atoms(tcx).join(","))
}

/// strip crate-local numbering from Debug prints: `DefId(0:24 ~ vek[c083]::ops::X)` -> `DefId(vek::ops::X)`
fn normalise(s: &str) -> String {
    let mut out = String::with_capacity(s.len());
    let b = s.as_bytes();
    let mut i = 0;
    while i < b.len() {
        if s[i..].starts_with("DefId(") {
            if let Some(t) = s[i..].find(" ~ ") {
                // only when the tilde belongs to this DefId( ... ) group
                let close = s[i..].find(')').unwrap_or(usize::MAX);
                if t < close {
                    out.push_str("DefId(");
                    i += t + 3;
                    continue;
                }
            }
        }
        if b[i] == b'[' && i + 5 < b.len() && b[i + 5] == b']' && s[i + 1..i + 5].bytes().all(|c| c.is_ascii_hexdigit()) && s[i + 6..].starts_with("::") {
            i += 6;
            continue;
        }
        if s[i..].starts_with("{impl#") {
            if let Some(e) = s[i..].find('}') {
                if s[i + 6..i + e].bytes().all(|c| c.is_ascii_digit()) {
                    out.push_str("{impl}");
                    i += e + 1;
                    continue;
                }
            }
        }
        out.push(b[i] as char);
        i += 1;
    }
    out
}

fn same_span(a: rustc_span::Span, b: rustc_span::Span) -> bool {
    a.lo() == b.lo() && a.hi() == b.hi() && a.ctxt() == b.ctxt()
}

/// the call site of the innermost `debug_assert*!` invocation this span was expanded from, if any
pub fn debug_assert_site(sp: rustc_span::Span) -> Option<rustc_span::Span> {
    for e in sp.macro_backtrace() {
        if let rustc_span::ExpnKind::Macro(_, name) = e.kind {
            let n = name.as_str();
            if n == "debug_assert" || n == "debug_assert_eq" || n == "debug_assert_ne" {
                return Some(e.call_site);
            }
        }
    }
    None
}

fn in_site(sp: rustc_span::Span, sites: &[rustc_span::Span]) -> bool {
    for d in sites {
        if sp.ctxt() == d.ctxt() && sp.lo() >= d.lo() && sp.hi() <= d.hi() {
            return true;
        }
        if sp.macro_backtrace().any(|e| same_span(e.call_site, *d)) {
            return true;
        }
    }
    false
}

/// Statements that belong to a `debug_assert!` invocation (the asserted expression and the expansion's own code) vanish in a release build.
/// They must not have effects other than panicking: no write to anything but a compiler temporary, no mutable borrow, no move out of a
/// user variable or argument.
fn debug_region_impurities<'tcx>(tcx: TyCtxt<'tcx>, body: &Body<'tcx>, sites: &[rustc_span::Span]) -> Vec<String> {
    use rustc_middle::mir::{BorrowKind, Operand, Rvalue, StatementKind, TerminatorKind};
    let _ = tcx;
    // user variables are the locals named by the debug info (`local_info` is cleared in optimized MIR)
    let user: std::collections::BTreeSet<usize> = body
        .var_debug_info
        .iter()
        .filter_map(|v| match &v.value {
            rustc_middle::mir::VarDebugInfoContents::Place(p) => Some(p.local.as_usize()),
            _ => None,
        })
        .collect();
    // a local declared by the invocation itself (the `left_val` / `right_val` bindings of `debug_assert_eq!`) lives and dies inside it
    let is_temp = |l: rustc_middle::mir::Local| l.as_usize() > body.arg_count && (!user.contains(&l.as_usize()) || in_site(body.local_decls[l].source_info.span, sites));
    let mut out = vec![];
    let mut check_operand = |o: &Operand<'tcx>, what: &str, out: &mut Vec<String>| {
        if let Operand::Move(p) = o {
            if !is_temp(p.local) {
                out.push(format!("{}: moves out of {:?}", what, p));
            }
        }
    };
    for (bb, data) in body.basic_blocks.iter_enumerated() {
        for st in &data.statements {
            if !in_site(st.source_info.span, sites) {
                continue;
            }
            if let StatementKind::Assign(b) = &st.kind {
                let (pl, rv) = (&b.0, &b.1);
                if !is_temp(pl.local) || pl.is_indirect() {
                    out.push(format!("{:?}: writes {:?}", bb, pl));
                }
                match rv {
                    Rvalue::Ref(_, BorrowKind::Mut { .. }, p) if !is_temp(p.local) || p.is_indirect() => out.push(format!("{:?}: mutable borrow of {:?}", bb, p)),
                    Rvalue::RawPtr(k, p) if matches!(k, rustc_middle::mir::RawPtrKind::Mut) && (!is_temp(p.local) || p.is_indirect()) => out.push(format!("{:?}: mutable raw borrow of {:?}", bb, p)),
                    Rvalue::Use(o, ..) => check_operand(o, &format!("{:?}", bb), &mut out),
                    _ => {}
                }
            }
        }
        let t = data.terminator();
        if in_site(t.source_info.span, sites) {
            match &t.kind {
                TerminatorKind::Call { args, .. } => {
                    for a in args.iter() {
                        check_operand(&a.node, &format!("{:?} call", bb), &mut out);
                    }
                }
                TerminatorKind::Drop { place, .. } if !is_temp(place.local) => out.push(format!("{:?}: drops {:?}", bb, place)),
                _ => {}
            }
        }
    }
    out
}

/// Inventory of configuration predicates: every `cfg(..)`, `cfg!(..)` and `cfg_attr(.., ..)` in the crate's own source files, lexed with
/// rustc's lexer (comments and strings are tokens, never scanned), also inside `macro_rules!` bodies where they are not attributes yet.
/// Each row: [file, line, form, atom] with atom = `name` or `name="value"`. The predicates are pre-expansion by nature; this is the one
/// rule that reads tokens rather than the resolved program.
fn cfg_atoms<'tcx>(tcx: TyCtxt<'tcx>) -> Vec<String> {
    use rustc_lexer::{tokenize, FrontmatterAllowed, TokenKind};
    let sm = tcx.sess.source_map();
    let root = tcx.sess.local_crate_source_file().and_then(|f| f.local_path().map(|p| p.to_path_buf()));
    let Some(root) = root else { return vec![] };
    let dir = root.parent().map(|p| p.to_path_buf()).unwrap_or_default();
    let mut rows = vec![];
    for f in sm.files().iter() {
        let name = format!("{}", f.name.prefer_local_unconditionally());
        if !std::path::Path::new(&name).starts_with(&dir) {
            continue;
        }
        let Some(src) = f.src.as_ref() else { continue };
        let src: &str = src.as_str();
        // significant tokens with their byte offsets
        let mut toks: Vec<(TokenKind, usize, usize)> = vec![];
        let mut off = 0usize;
        for t in tokenize(src, FrontmatterAllowed::No) {
            let len = t.len as usize;
            match t.kind {
                TokenKind::Whitespace | TokenKind::LineComment { .. } | TokenKind::BlockComment { .. } => {}
                k => toks.push((k, off, len)),
            }
            off += len;
        }
        let line_of = |o: usize| src[..o].bytes().filter(|b| *b == b'\n').count() + 1;
        let text = |i: usize| &src[toks[i].1..toks[i].1 + toks[i].2];
        let mut i = 0;
        while i < toks.len() {
            if matches!(toks[i].0, TokenKind::Ident) && (text(i) == "cfg" || text(i) == "cfg_attr") {
                let form0 = text(i).to_string();
                let mut j = i + 1;
                let mut form = form0.clone();
                if j < toks.len() && matches!(toks[j].0, TokenKind::Bang) {
                    form.push('!');
                    j += 1;
                }
                if j < toks.len() && matches!(toks[j].0, TokenKind::OpenParen) {
                    // walk to the matching parenthesis; for cfg_attr only the first argument is a predicate
                    let mut depth = 0i32;
                    let mut k = j;
                    let line = line_of(toks[i].1);
                    while k < toks.len() {
                        match toks[k].0 {
                            TokenKind::OpenParen => depth += 1,
                            TokenKind::CloseParen => {
                                depth -= 1;
                                if depth == 0 {
                                    break;
                                }
                            }
                            TokenKind::Comma if depth == 1 && form0 == "cfg_attr" => break,
                            TokenKind::Ident => {
                                let n = text(k);
                                let is_comb = (n == "all" || n == "any" || n == "not") && k + 1 < toks.len() && matches!(toks[k + 1].0, TokenKind::OpenParen);
                                if !is_comb {
                                    let mut atom = n.to_string();
                                    if k + 2 < toks.len() && matches!(toks[k + 1].0, TokenKind::Eq) && matches!(toks[k + 2].0, TokenKind::Literal { .. }) {
                                        atom = format!("{}={}", n, text(k + 2));
                                        k += 2;
                                    }
                                    rows.push(format!("[{},{},{},{}]", jstr(&name), line, jstr(&form), jstr(&atom)));
                                }
                            }
                            _ => {}
                        }
                        k += 1;
                    }
                    i = k;
                }
            }
            i += 1;
        }
    }
    rows
}
