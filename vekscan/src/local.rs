//! Rules that run inside vek's own compilation (all bodies of the crate).
use rustc_middle::ty::TyCtxt;

pub fn run<'tcx>(_tcx: TyCtxt<'tcx>) -> String {
    "{}".to_string()
}
