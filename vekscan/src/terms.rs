//! Hash-consed term table (free term algebra). The driver never simplifies terms:
//! canonicalisation and comparison with the oracles is done by /verif/vv (Python).
use std::collections::HashMap;

pub type Tid = u32;

#[derive(Clone, Debug, PartialEq, Eq, Hash)]
pub enum Term {
    /// input leaf: name, type
    In(String, String),
    /// concrete integer lifted into a term: value, type
    CInt(i128, String),
    /// float constant: raw bits, width
    CFloat(u128, u32),
    /// operator / function application
    Op(String, Vec<Tid>),
}

#[derive(Default)]
pub struct Terms {
    pub tab: Vec<Term>,
    idx: HashMap<Term, Tid>,
}

impl Terms {
    pub fn mk(&mut self, t: Term) -> Tid {
        if let Some(&i) = self.idx.get(&t) {
            return i;
        }
        let i = self.tab.len() as Tid;
        self.tab.push(t.clone());
        self.idx.insert(t, i);
        i
    }
    pub fn op(&mut self, name: &str, args: Vec<Tid>) -> Tid {
        self.mk(Term::Op(name.to_string(), args))
    }
    pub fn to_json(&self) -> String {
        let mut s = String::from("[");
        for (i, t) in self.tab.iter().enumerate() {
            if i > 0 {
                s.push(',');
            }
            match t {
                Term::In(n, ty) => s.push_str(&format!("[\"in\",{},{}]", jstr(n), jstr(ty))),
                Term::CInt(v, ty) => s.push_str(&format!("[\"ci\",\"{}\",{}]", v, jstr(ty))),
                Term::CFloat(b, w) => s.push_str(&format!("[\"cf\",\"{:x}\",{}]", b, w)),
                Term::Op(n, a) => {
                    s.push_str(&format!("[\"op\",{},[", jstr(n)));
                    for (k, x) in a.iter().enumerate() {
                        if k > 0 {
                            s.push(',');
                        }
                        s.push_str(&x.to_string());
                    }
                    s.push_str("]]");
                }
            }
        }
        s.push(']');
        s
    }
}

pub fn jstr(s: &str) -> String {
    let mut o = String::with_capacity(s.len() + 2);
    o.push('"');
    for c in s.chars() {
        match c {
            '"' => o.push_str("\\\""),
            '\\' => o.push_str("\\\\"),
            '\n' => o.push_str("\\n"),
            '\t' => o.push_str("\\t"),
            '\r' => o.push_str("\\r"),
            c if (c as u32) < 0x20 => o.push_str(&format!("\\u{:04x}", c as u32)),
            c => o.push(c),
        }
    }
    o.push('"');
    o
}
