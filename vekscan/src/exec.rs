//! Calls, bodies, models of core, drops.
use crate::interp::*;
use crate::terms::{Term, Tid};
use crate::value::*;
use rustc_middle::mir::*;
use rustc_middle::ty::{self, Instance, InstanceKind, Ty};
use rustc_span::def_id::DefId;

const EXT_TRAIT_CRATES: &[&str] = &["core", "std", "num_traits", "approx", "az", "num_integer"];
/// trait methods on primitives that are *not* turned into external terms (identity-like or descended)
const NOT_EXT: &[&str] = &[
    "Clone::clone", "Into::into", "From::from", "Default::default", "Borrow::borrow", "BorrowMut::borrow_mut", "AsRef::as_ref", "AsMut::as_mut", "ToOwned::to_owned", "TryFrom::try_from", "TryInto::try_into", "Sum::sum", "Product::product",
];

pub fn prim(t: Ty<'_>) -> bool {
    matches!(t.kind(), ty::Int(_) | ty::Uint(_) | ty::Float(_) | ty::Bool)
}

impl<'tcx> M<'tcx> {
    fn defname(&self, d: DefId) -> String {
        self.tcx.def_path_str(d)
    }

    /// Decide, on the *unresolved* callee, whether the call is a scalar operation of an external crate.
    fn ext_name(&self, d: DefId, args: ty::GenericArgsRef<'tcx>) -> Option<String> {
        let tcx = self.tcx;
        if let Some(tr) = tcx.trait_of_assoc(d) {
            let selfty = args.types().next()?;
            let st = peel_refs(selfty);
            if !prim(st) {
                return None;
            }
            let krate = tcx.crate_name(tr.krate);
            if !EXT_TRAIT_CRATES.contains(&krate.as_str()) {
                return None;
            }
            let tn = format!("{}::{}", tcx.item_name(tr), tcx.item_name(d));
            if NOT_EXT.contains(&tn.as_str()) {
                return None;
            }
            if tn.starts_with("Fn") || tn.starts_with("Iterator") || tn.starts_with("IntoIterator") || tn.starts_with("Display") || tn.starts_with("Debug") || tn.starts_with("Hash") {
                return None;
            }
            // all generic type args (Rhs etc.) must be primitive (or refs to)
            for t in args.types() {
                if !prim(peel_refs(t)) {
                    return None;
                }
            }
            let targs: Vec<String> = args.types().map(|t| format!("{}", peel_refs(t))).collect();
            return Some(format!("{}:{}::{}<{}>", krate, tcx.item_name(tr), tcx.item_name(d), targs.join(",")));
        }
        if let Some(imp) = tcx.inherent_impl_of_assoc(d) {
            let st = tcx.type_of(imp).skip_binder();
            if prim(st) {
                return Some(format!("prim:{}::{}", st, tcx.item_name(d)));
            }
        }
        None
    }

    /// branch on a symbolic boolean term, reusing an earlier decision on the same term
    pub fn decide_bool(&mut self, t: Tid) -> bool {
        for (ct, v) in self.conds.iter() {
            if *ct == t {
                return !(*v == 0);
            }
        }
        let c = self.decide(2);
        if c == 0 {
            self.conds.push((t, 0));
            false
        } else {
            self.conds.push((t, -1));
            true
        }
    }

    /// value of a float-constant term
    pub fn cfloat(&self, t: Tid) -> Option<f64> {
        match &self.terms.tab[t as usize] {
            Term::CFloat(bits, 32) => Some(f32::from_bits(*bits as u32) as f64),
            Term::CFloat(bits, 64) => Some(f64::from_bits(*bits as u64)),
            _ => None,
        }
    }

    fn scalar_args(&mut self, vals: &[(V<'tcx>, Ty<'tcx>)]) -> R<Vec<Tid>> {
        let mut out = vec![];
        for (v, t) in vals {
            self.leaves_of(v, *t, &mut out)?;
        }
        Ok(out)
    }

    fn try_concrete_ext(&mut self, name: &str, vals: &[(V<'tcx>, Ty<'tcx>)], ret: Ty<'tcx>) -> Option<V<'tcx>> {
        // concrete evaluation of a few integer operations so that indices stay constants
        let tcx = self.tcx;
        let mut ints = vec![];
        for (v, t) in vals {
            let v = match (v, t.kind()) {
                (V::Ptr(p), ty::Ref(_, inner, _)) => self.load(p, *inner).ok()?,
                (v, _) => v.clone(),
            };
            if let V::Int(i) = v {
                ints.push(i)
            } else {
                return None;
            }
        }
        let m = name.rsplit("::").next()?.split('<').next()?;
        let t0 = vals.first().map_or(ret, |x| peel_refs(x.1));
        let n = |x: i128| V::Int(int_norm(tcx, ret, x));
        let b = |x: bool| V::Int(x as i128);
        Some(match (m, ints.as_slice()) {
            ("add" | "wrapping_add" | "unchecked_add" | "forward_unchecked" | "forward", [a, c]) => n(a.wrapping_add(*c)),
            ("sub" | "wrapping_sub" | "unchecked_sub" | "backward_unchecked" | "backward", [a, c]) => n(a.wrapping_sub(*c)),
            ("mul" | "wrapping_mul" | "unchecked_mul", [a, c]) => n(a.wrapping_mul(*c)),
            ("div" | "div_euclid", [a, c]) if *c > 0 && *a >= 0 => n(a / c),
            ("rem" | "rem_euclid", [a, c]) if *c > 0 && *a >= 0 => n(a % c),
            ("div_ceil", [a, c]) if *c > 0 && *a >= 0 => n((a + c - 1) / c),
            ("min", [a, c]) if t0.is_integral() => n(*a.min(c)),
            ("max", [a, c]) if t0.is_integral() => n(*a.max(c)),
            ("saturating_sub", [a, c]) if matches!(t0.kind(), ty::Uint(_)) => n(if a > c { a - c } else { 0 }),
            ("abs_diff", [a, c]) if t0.is_integral() => n((a - c).abs()),
            ("bitand", [a, c]) => n(a & c),
            ("bitor", [a, c]) => n(a | c),
            ("bitxor", [a, c]) => n(a ^ c),
            ("shl", [a, c]) => n(a.wrapping_shl(*c as u32 % int_bits(tcx, t0))),
            ("shr", [a, c]) => n(a >> (*c as u32 % int_bits(tcx, t0))),
            ("eq", [a, c]) => b(a == c),
            ("ne", [a, c]) => b(a != c),
            ("lt", [a, c]) => b(a < c),
            ("le", [a, c]) => b(a <= c),
            ("gt", [a, c]) => b(a > c),
            ("ge", [a, c]) => b(a >= c),
            ("not", [a]) => {
                if t0.is_bool() {
                    b(*a == 0)
                } else {
                    n(!a)
                }
            }
            ("zero", []) if ret.is_integral() => n(0),
            ("one", []) if ret.is_integral() => n(1),
            // Zero::zero() / One::one() of the float types are the constants 0.0 / 1.0 (so that arithmetic on them folds like on literals)
            ("zero" | "one", []) if matches!(ret.kind(), ty::Float(_)) && (name.contains("Zero::zero<") || name.contains("One::one<")) => {
                let ty::Float(ft) = ret.kind() else { return None };
                let one = m == "one";
                let bits: u128 = match ft.bit_width() {
                    32 => (if one { 1.0f32 } else { 0.0f32 }).to_bits() as u128,
                    64 => (if one { 1.0f64 } else { 0.0f64 }).to_bits() as u128,
                    _ => return None,
                };
                V::T(self.terms.mk(Term::CFloat(bits, ft.bit_width() as u32)))
            }
            _ => return None,
        })
    }

    // ---------------------------------------------------------------- call dispatch
    pub fn do_call(&mut self, f: &Frame<'tcx>, func: &Operand<'tcx>, args: &[rustc_span::Spanned<Operand<'tcx>>], ret_ty: Ty<'tcx>) -> R<V<'tcx>> {
        let tcx = self.tcx;
        // a type-level constant (size_of::<T>, align_of, type_name, TypeId::of) of a type PARAMETER, asked for inside a generic vek body: the
        // behaviour of that body may differ between instantiations, and only the instantiations of the roots are analysed -> recorded, the
        // checker fails closed unless the site is in its table of audited sites
        if let ty::FnDef(d, ga) = func.ty(f.body, tcx).kind() {
            use rustc_middle::ty::TypeVisitableExt;
            if ga.has_param() && tcx.crate_name(f.inst.def_id().krate).as_str() == "vek" {
                let n = tcx.def_path_str(*d);
                if n.ends_with("::size_of") || n.ends_with("::align_of") || n.ends_with("::type_name") || n.ends_with("TypeId::of") || n.ends_with("::size_of_val") || n.ends_with("::needs_drop") {
                    let site = tcx.def_path_str(f.inst.def_id());
                    let note = format!("typeconst|{}|{}", n, site);
                    if !self.events.iter().any(|e| matches!(e, Event::Note(x) if *x == note)) {
                        self.events.push(Event::Note(note));
                    }
                }
            }
        }
        let fty = self.mono(f, func.ty(f.body, tcx));
        let mut vals = vec![];
        for a in args {
            vals.push(self.operand(f, &a.node)?);
        }
        match fty.kind() {
            ty::FnDef(d, cargs) => self.call_def(*d, cargs, vals, ret_ty),
            ty::FnPtr(..) => {
                let (fv, _) = self.operand(f, func)?;
                self.call_value(fv, vals, ret_ty)
            }
            _ => unsup("indirect call"),
        }
    }

    pub fn call_value(&mut self, fv: V<'tcx>, vals: Vec<(V<'tcx>, Ty<'tcx>)>, ret_ty: Ty<'tcx>) -> R<V<'tcx>> {
        match fv {
            V::FnDef(d, a) if self.tcx.is_closure_like(d) => {
                let st = Ty::new_closure(self.tcx, d, a);
                self.call_callable(V::Agg(vec![]), st, vals, ret_ty)
            }
            V::FnDef(d, a) => self.call_def(d, a, vals, ret_ty),
            V::OpaqueFn(name) => {
                let a = self.scalar_args(&vals)?;
                let t = self.terms.op(&format!("call:{}", name), a.clone());
                self.events.push(Event::Call(name, a, t));
                Ok(self.symbolic_of(t, ret_ty))
            }
            o => unsup(format!("call of {:?}", o)),
        }
    }

    /// call a closure / fn item / fn pointer value with already untupled arguments
    pub fn call_callable(&mut self, cv: V<'tcx>, st: Ty<'tcx>, targs: Vec<(V<'tcx>, Ty<'tcx>)>, ret_ty: Ty<'tcx>) -> R<V<'tcx>> {
        let tcx = self.tcx;
        match st.kind() {
            ty::Closure(cd, cl_args) => {
                let inst = Instance::new_raw(*cd, cl_args);
                let body = tcx.instance_mir(inst.def);
                // first argument: closure env by value or by reference, as the body expects
                let env_ty = body.local_decls[Local::from_usize(1)].ty;
                let envv = match (env_ty.kind(), &cv) {
                    (ty::Ref(..), V::Ptr(_)) => cv.clone(),
                    (ty::Ref(..), v) => {
                        let a = self.new_alloc((*v).clone(), "closure-env");
                        V::Ptr(Ptr { alloc: a, path: vec![], off: 0, sl: None })
                    }
                    (_, V::Ptr(p)) => self.load(p, st)?,
                    (_, v) => (*v).clone(),
                };
                let mut a2 = vec![(envv, env_ty)];
                a2.extend(targs);
                self.run_instance(inst, a2)
            }
            ty::FnDef(fd, fa) => self.call_def(*fd, fa, targs, ret_ty),
            ty::FnPtr(..) => self.call_value(cv, targs, ret_ty),
            o => unsup(format!("call through {:?}", o)),
        }
    }

    pub fn call_def(&mut self, d: DefId, cargs: ty::GenericArgsRef<'tcx>, mut vals: Vec<(V<'tcx>, Ty<'tcx>)>, ret_ty: Ty<'tcx>) -> R<V<'tcx>> {
        let tcx = self.tcx;
        let name = self.defname(d);
        if self.cfg.log {
            eprintln!("{}call {} {:?}", " ".repeat(self.depth), name, cargs);
        }
        // 0. dynamic dispatch: `&dyn Trait` values remember their concrete pointee type
        if tcx.trait_of_assoc(d).is_some() && cargs.len() > 0 {
            if let Some(t0) = cargs.get(0).and_then(|a| a.as_type()) {
                if matches!(t0.kind(), ty::Dynamic(..)) {
                    if let Some((V::Dyn(p, cty), rt)) = vals.first().cloned() {
                        let mut na: Vec<ty::GenericArg<'tcx>> = cargs.iter().collect();
                        na[0] = cty.into();
                        let nargs = tcx.mk_args(&na);
                        let nrt = match rt.kind() {
                            ty::Ref(r, _, m) => Ty::new_ref(tcx, *r, cty, *m),
                            ty::RawPtr(_, m) => Ty::new_ptr(tcx, cty, *m),
                            _ => rt,
                        };
                        vals[0] = (V::Ptr(p), nrt);
                        return self.call_def(d, nargs, vals, ret_ty);
                    }
                }
            }
        }
        // 1. external scalar operations
        if let Some(en) = self.ext_name(d, cargs) {
            if let Some(v) = self.try_concrete_ext(&en, &vals, ret_ty) {
                return Ok(v);
            }
            // three-way comparison of primitives: decided by branching on `<` then `==` (total order; NaN excluded)
            if en.contains("PartialOrd::partial_cmp<") || en.contains("Ord::cmp<") {
                let a = self.scalar_args(&vals)?;
                if a.len() == 2 {
                    let tys = en[en.find('<').unwrap()..].to_string();
                    let conc = |m: &Self, t: Tid| -> Option<i128> {
                        if let Term::CInt(v, _) = &m.terms.tab[t as usize] {
                            Some(*v)
                        } else {
                            None
                        }
                    };
                    let ord = if let (Some(x), Some(y)) = (conc(self, a[0]), conc(self, a[1])) {
                        if x < y {
                            0
                        } else if x == y {
                            1
                        } else {
                            2
                        }
                    } else {
                        let lt = self.terms.op(&format!("ext:core:PartialOrd::lt{}", tys), a.clone());
                        if self.decide_bool(lt) {
                            0
                        } else {
                            let eq = self.terms.op(&format!("ext:core:PartialEq::eq{}", tys), a.clone());
                            if self.decide_bool(eq) {
                                1
                            } else {
                                2
                            }
                        }
                    };
                    let o = V::Enum(ord, vec![]);
                    return Ok(if en.contains("partial_cmp") { V::Enum(1, vec![o]) } else { o });
                }
            }
            // compound assignment on a primitive: compute and store through the first argument
            if en.contains("Assign::") {
                if let (V::Ptr(p), ty::Ref(_, inner, _)) = (&vals[0].0, vals[0].1.kind()) {
                    let (p, inner) = (p.clone(), *inner);
                    let a = self.scalar_args(&vals)?;
                    let t = self.terms.op(&format!("ext:{}", en.replace("Assign::", "::").replace("_assign<", "<")), a);
                    self.store(&p, inner, V::T(t))?;
                    return Ok(V::unit());
                }
                return unsup(format!("compound assignment {} on a non-reference", en));
            }
            // conversions returning Option<T>: a constant source always converts (Some)
            if en.contains("NumCast::from<") || en.contains("ToPrimitive::to_") || en.contains("FromPrimitive::from_") {
                let a = self.scalar_args(&vals)?;
                if a.len() == 1 && matches!(self.terms.tab[a[0] as usize], Term::CInt(..) | Term::CFloat(..)) {
                    let t = self.terms.op(&format!("optcast:{}", en), a);
                    return Ok(V::Enum(1, vec![V::T(t)]));
                }
            }
            let a = self.scalar_args(&vals)?;
            // arithmetic on float constants whose result is exactly representable is folded (sparse conditional constant propagation)
            if !a.is_empty() && a.iter().all(|t| self.cfloat(*t).is_some()) {
                let m = en.rsplit("::").next().unwrap_or("").split('<').next().unwrap_or("");
                let xs: Vec<f64> = a.iter().map(|t| self.cfloat(*t).unwrap()).collect();
                let width = match &self.terms.tab[a[0] as usize] {
                    Term::CFloat(_, w) => *w,
                    _ => 64,
                };
                let r = match (m, xs.as_slice()) {
                    ("add", [x, y]) => Some(x + y),
                    ("sub", [x, y]) => Some(x - y),
                    ("mul", [x, y]) => Some(x * y),
                    ("div", [x, y]) if *y != 0.0 => Some(x / y),
                    ("neg", [x]) => Some(-x),
                    ("recip", [x]) if *x != 0.0 => Some(1.0 / x),
                    _ => None,
                };
                if let Some(r) = r {
                    // exactness: the f64 result of exact operands must survive the round trip through the operand width,
                    // and for division the product must give back the dividend
                    let exact = r.is_finite() && (width == 64 || (r as f32) as f64 == r) && match (m, xs.as_slice()) {
                        ("div", [x, y]) => r * y == *x && (r * y).is_finite(),
                        ("recip", [x]) => r * x == 1.0,
                        ("mul", [x, y]) => x.abs() < 1e15 && y.abs() < 1e15 && (r / y == *x || *y == 0.0),
                        ("add", [x, y]) | ("sub", [x, y]) => x.abs() < 1e15 && y.abs() < 1e15,
                        _ => true,
                    };
                    if exact && width != 64 {
                        return Ok(V::T(self.terms.mk(Term::CFloat((r as f32).to_bits() as u128, 32))));
                    }
                    if exact && width == 64 && r.abs() < 1e15 && (r * 1048576.0).fract() == 0.0 {
                        return Ok(V::T(self.terms.mk(Term::CFloat(r.to_bits() as u128, 64))));
                    }
                }
            }
            // comparisons of two float constants are decided concretely (no fork on a constant condition)
            if a.len() == 2 && (en.contains("PartialOrd::") || en.contains("PartialEq::")) {
                if let (Some(x), Some(y)) = (self.cfloat(a[0]), self.cfloat(a[1])) {
                    let m = en.rsplit("::").next().unwrap_or("").split('<').next().unwrap_or("");
                    let r = match m {
                        "lt" => Some(x < y),
                        "le" => Some(x <= y),
                        "gt" => Some(x > y),
                        "ge" => Some(x >= y),
                        "eq" => Some(x == y),
                        "ne" => Some(x != y),
                        _ => None,
                    };
                    if let Some(r) = r {
                        return Ok(V::Int(r as i128));
                    }
                }
            }
            let t = self.terms.op(&format!("ext:{}", en), a);
            return Ok(self.symbolic_of(t, ret_ty));
        }
        // 2. closures / fn items / fn pointers through the Fn* traits
        if let Some(tr) = tcx.trait_of_assoc(d) {
            let trn = tcx.item_name(tr);
            // (a struct implementing the Fn traits itself, like core's NeverShortCircuit wrappers, is resolved like any other trait call)
            if matches!(trn.as_str(), "Fn" | "FnMut" | "FnOnce") && matches!(peel_refs(cargs.type_at(0)).kind(), ty::Closure(..) | ty::FnDef(..) | ty::FnPtr(..)) {
                let selfty = cargs.type_at(0);
                let (tupv, tupt) = vals.pop().ok_or_else(|| Stop::Unsupported("Fn call without args".into()))?;
                let tup: Vec<V<'tcx>> = match tupv {
                    V::Agg(t) => t,
                    o => vec![o],
                };
                let tts: Vec<Ty<'tcx>> = match tupt.kind() {
                    ty::Tuple(ts) => ts.iter().collect(),
                    _ => vec![tupt],
                };
                let (selfv, selfvt) = vals.pop().ok_or_else(|| Stop::Unsupported("Fn call without self".into()))?;
                let st = peel_refs(selfty);
                // value of the callable itself (peel references)
                let mut cv = selfv.clone();
                let mut cvt = selfvt;
                while let (V::Ptr(p), ty::Ref(_, inner, _)) = (&cv, cvt.kind()) {
                    let inner = *inner;
                    if matches!(inner.kind(), ty::Closure(..)) {
                        break;
                    }
                    cv = self.load(p, inner)?;
                    cvt = inner;
                }
                let targs: Vec<(V<'tcx>, Ty<'tcx>)> = tup.into_iter().zip(tts).collect();
                return self.call_callable(cv, st, targs, ret_ty);
            }
        }
        // 3. opaque (summarised) callees requested by the root's configuration
        if self.cfg.opaque.iter().any(|o| name == *o || name.starts_with(&format!("{}::", o)) && false || glob_match(o, &name)) {
            let a = self.scalar_args(&vals)?;
            let t = self.terms.op(&format!("call:{}", name), a.clone());
            self.events.push(Event::Call(name, a, t));
            return Ok(self.symbolic_of(t, ret_ty));
        }
        // 4. models of core
        if let Some(v) = self.model(d, cargs, &name, &mut vals, ret_ty)? {
            return Ok(v);
        }
        // 5. resolve and interpret
        let inst = match Instance::try_resolve(tcx, tyenv(), d, cargs) {
            Ok(Some(i)) => i,
            _ => return unsup(format!("cannot resolve {}", name)),
        };
        let rname = self.defname(inst.def_id());
        if rname != name {
            if let Some(v) = self.model(inst.def_id(), inst.args, &rname, &mut vals, ret_ty)? {
                return Ok(v);
            }
            if self.cfg.opaque.iter().any(|o| glob_match(o, &rname)) {
                let a = self.scalar_args(&vals)?;
                let t = self.terms.op(&format!("call:{}", rname), a.clone());
                self.events.push(Event::Call(rname, a, t));
                return Ok(self.symbolic_of(t, ret_ty));
            }
            if let Some(en) = self.ext_name(inst.def_id(), inst.args) {
                let a = self.scalar_args(&vals)?;
                let t = self.terms.op(&format!("ext:{}", en), a);
                return Ok(self.symbolic_of(t, ret_ty));
            }
        }
        match inst.def {
            InstanceKind::Item(_) => {}
            InstanceKind::ClosureOnceShim { .. } => {
                // FnOnce::call_once on a closure that implements FnMut/Fn: handled above
                return unsup(format!("closure once shim {}", rname));
            }
            InstanceKind::DropGlue(_, Some(t)) => {
                let (pv, _) = vals.into_iter().next().unwrap();
                let V::Ptr(p) = pv else { return unsup("drop_in_place of non-pointer") };
                self.drop_at(&p, t)?;
                return Ok(V::unit());
            }
            InstanceKind::DropGlue(_, None) => return Ok(V::unit()),
            InstanceKind::CloneShim(..) => {
                // Clone of Copy aggregates / fn items
                let (pv, pt) = vals.into_iter().next().unwrap();
                if let (V::Ptr(p), ty::Ref(_, inner, _)) = (&pv, pt.kind()) {
                    return self.load(p, *inner);
                }
                return unsup("clone shim");
            }
            InstanceKind::FnPtrShim(..) | InstanceKind::ReifyShim(..) => return unsup(format!("shim {}", rname)),
            _ => return unsup(format!("unmodelled instance kind for {}", rname)),
        }
        if tcx.intrinsic(inst.def_id()).is_some() {
            return unsup(format!("intrinsic {}", rname));
        }
        if !tcx.is_mir_available(inst.def_id()) {
            return unsup(format!("no MIR for {}", rname));
        }
        if tcx.crate_name(inst.def_id().krate).as_str() == "vek" {
            self.visited.insert(tcx.def_path(inst.def_id()).to_string_no_crate_verbose());
        }
        self.run_instance(inst, vals)
    }

    // ---------------------------------------------------------------- body interpretation
    pub fn run_instance(&mut self, inst: Instance<'tcx>, args: Vec<(V<'tcx>, Ty<'tcx>)>) -> R<V<'tcx>> {
        let tcx = self.tcx;
        let body = tcx.instance_mir(inst.def);
        if let Ok(pat) = std::env::var("VEKSCAN_MIRDUMP") {
            let n = tcx.def_path_str(inst.def_id());
            if n.contains(&pat) {
                eprintln!("MIRDUMP {} {:?}", n, inst.args);
                for (l, d) in body.local_decls.iter_enumerated() {
                    eprintln!("  let {:?}: {:?}", l, d.ty);
                }
                for (bb, data) in body.basic_blocks.iter_enumerated() {
                    eprintln!("  {:?}:", bb);
                    for st in &data.statements {
                        eprintln!("    {:?}", st.kind);
                    }
                    eprintln!("    -> {:?}", data.terminator().kind);
                }
            }
        }
        let mut fr = Frame { inst, body, locals: vec![] };
        for (_l, d) in body.local_decls.iter_enumerated() {
            let t = self.mono(&fr, d.ty);
            let v = mk_uninit(tcx, t);
            let a = self.new_alloc(v, "local");
            fr.locals.push(a);
        }
        if args.len() != body.arg_count {
            // "rust-call" ABI with a spread argument
            if let Some(sp) = body.spread_arg {
                let k = sp.as_usize() - 1;
                let mut fixed: Vec<(V<'tcx>, Ty<'tcx>)> = args[..k].to_vec();
                let rest: Vec<V<'tcx>> = args[k..].iter().map(|x| x.0.clone()).collect();
                fixed.push((V::Agg(rest), self.mono(&fr, body.local_decls[sp].ty)));
                return self.run_frame(fr, fixed);
            }
            return unsup(format!("argument count mismatch calling {}: {} vs {}", self.defname(inst.def_id()), args.len(), body.arg_count));
        }
        self.run_frame(fr, args)
    }

    /// evaluate a promoted constant body (`&CONST_EXPR` hoisted by rustc) in the generic context of `inst`: its MIR is interpreted like any other body
    pub fn run_promoted(&mut self, inst: Instance<'tcx>, body: &'tcx Body<'tcx>) -> R<V<'tcx>> {
        let tcx = self.tcx;
        let mut fr = Frame { inst, body, locals: vec![] };
        for (_l, d) in body.local_decls.iter_enumerated() {
            let t = self.mono(&fr, d.ty);
            let v = mk_uninit(tcx, t);
            let a = self.new_alloc(v, "promoted-local");
            fr.locals.push(a);
        }
        self.run_frame(fr, vec![])
    }

    fn run_frame(&mut self, fr: Frame<'tcx>, args: Vec<(V<'tcx>, Ty<'tcx>)>) -> R<V<'tcx>> {
        let tcx = self.tcx;
        let body = fr.body;
        for (i, (a, _)) in args.into_iter().enumerate() {
            let id = fr.locals[i + 1];
            let t = self.mono(&fr, body.local_decls[Local::from_usize(i + 1)].ty);
            self.allocs[id] = self.fit(a, t)?;
        }
        self.depth += 1;
        if self.depth > 200 {
            return unsup("call depth");
        }
        let my_depth = self.depth;
        let mut bb = START_BLOCK;
        self.loc_stack.truncate(self.depth - 1);
        self.loc_stack.push((fr.inst.def_id(), 0));
        loop {
            self.steps += 1;
            if let Some(top) = self.loc_stack.get_mut(self.depth - 1) {
                top.1 = bb.as_usize();
            }
            if self.steps > self.cfg.max_steps {
                return unsup("step budget exhausted (data-dependent loop?)");
            }
            let data = &body.basic_blocks[bb];
            for st in &data.statements {
                match &st.kind {
                    StatementKind::Assign(b) => {
                        let (pl, rv) = &**b;
                        let dt = self.mono(&fr, pl.ty(body, tcx).ty);
                        // release reading: the `cfg!(debug_assertions)` literal of a `debug_assert!` expansion is false (the MIR is otherwise
                        // identical in a release build: configuration pass)
                        if self.cfg.release && dt.is_bool() && matches!(rv, Rvalue::Use(Operand::Constant(_), ..)) && crate::local::debug_assert_site(st.source_info.span).is_some() {
                            self.write_place(&fr, pl, V::Int(0))?;
                            continue;
                        }
                        let v = self.rvalue(&fr, rv, dt)?;
                        self.write_place(&fr, pl, v)?;
                    }
                    StatementKind::SetDiscriminant { place, variant_index } => {
                        let (ptr, t) = self.place(&fr, place)?;
                        let cur = self.load(&ptr, t)?;
                        let nv = match cur {
                            V::Enum(_, f) => V::Enum(variant_index.as_u32(), f),
                            _ => V::Enum(variant_index.as_u32(), vec![]),
                        };
                        self.store(&ptr, t, nv)?;
                    }
                    StatementKind::Intrinsic(i) => match &**i {
                        NonDivergingIntrinsic::Assume(_) => {}
                        NonDivergingIntrinsic::CopyNonOverlapping(c) => {
                            let (src, st) = self.operand(&fr, &c.src)?;
                            let (dst, _) = self.operand(&fr, &c.dst)?;
                            let (cnt, _) = self.operand(&fr, &c.count)?;
                            let et = match st.kind() { ty::RawPtr(t, _) | ty::Ref(_, t, _) => *t, _ => return unsup("copy through a non-pointer") };
                            self.copy_elems(src, dst, cnt, et)?;
                        }
                    },
                    StatementKind::StorageLive(_) | StatementKind::StorageDead(_) | StatementKind::Nop | StatementKind::FakeRead(_) | StatementKind::PlaceMention(_) | StatementKind::AscribeUserType(..) | StatementKind::Coverage(_) | StatementKind::ConstEvalCounter | StatementKind::BackwardIncompatibleDropHint { .. } => {}
                    #[allow(unreachable_patterns)]
                    o => return unsup(format!("statement {:?}", o)),
                }
            }
            match &data.terminator().kind {
                TerminatorKind::Goto { target } => bb = *target,
                TerminatorKind::Return => {
                    self.depth -= 1;
                    return Ok(self.allocs[fr.locals[0]].clone());
                }
                TerminatorKind::SwitchInt { discr, targets } => {
                    let (d, dt) = self.operand(&fr, discr)?;
                    match d {
                        V::Int(k) => {
                            let bits = int_bits(tcx, dt);
                            let u = if bits >= 128 { k as u128 } else { (k as u128) & ((1u128 << bits) - 1) };
                            bb = targets.target_for_value(u);
                        }
                        V::T(t) => {
                            let vals: Vec<(u128, BasicBlock)> = targets.iter().collect();
                            let ow = &body.basic_blocks[targets.otherwise()];
                            let dead_otherwise = ow.statements.is_empty() && matches!(ow.terminator().kind, TerminatorKind::Unreachable);
                            // a discriminant already decided on this path keeps its outcome (no contradictory re-decision)
                            let prior: Vec<i128> = self.conds.iter().filter(|(ct, _)| *ct == t).map(|(_, v)| *v).collect();
                            if let Some(pv) = prior.iter().find(|v| **v >= 0) {
                                bb = targets.target_for_value(*pv as u128);
                                continue;
                            }
                            if !prior.is_empty() && vals.iter().all(|(v, _)| prior.contains(&(-1 - (*v as i128)))) {
                                bb = targets.otherwise();
                                continue;
                            }
                            let c = self.decide(vals.len() + if dead_otherwise { 0 } else { 1 });
                            if c < vals.len() {
                                self.conds.push((t, vals[c].0 as i128));
                                bb = vals[c].1;
                            } else {
                                // otherwise: record every excluded value
                                for (v, _) in &vals {
                                    self.conds.push((t, -1 - (*v as i128)));
                                }
                                bb = targets.otherwise();
                            }
                        }
                        V::Enum(var, _) => {
                            bb = targets.target_for_value(var as u128);
                        }
                        o => return unsup(format!("switch on {:?}", o)),
                    }
                }
                TerminatorKind::Assert { cond, expected, target, msg, .. } => {
                    let (c, _) = self.operand(&fr, cond)?;
                    match c {
                        V::Int(k) => {
                            if (k != 0) == *expected {
                                bb = *target
                            } else {
                                return Err(Stop::Panic(format!("assert: {}", akind(msg))));
                            }
                        }
                        V::T(t) => {
                            // arithmetic checks on symbolic integers: assumed to pass, recorded
                            self.events.push(Event::Note(format!("assumed:{}:{}", akind(msg), t)));
                            bb = *target;
                        }
                        o => return unsup(format!("assert on {:?}", o)),
                    }
                }
                TerminatorKind::Drop { place, target, unwind, .. } => {
                    let (ptr, t) = self.place(&fr, place)?;
                    match self.drop_at(&ptr, t) {
                        Err(Stop::Unwind) => {
                            self.depth = my_depth;
                            match unwind {
                                UnwindAction::Cleanup(c) => { bb = *c; continue; }
                                UnwindAction::Continue => { self.depth -= 1; return Err(Stop::Unwind); }
                                _ => return Err(Stop::Panic("abort: panic in a destructor during unwinding".into())),
                            }
                        }
                        r => r?,
                    }
                    bb = *target;
                }
                TerminatorKind::UnwindResume => {
                    self.depth = my_depth - 1;
                    return Err(Stop::Unwind);
                }
                TerminatorKind::Call { func, args, destination, target, unwind, .. } => {
                    let rt = self.mono(&fr, destination.ty(body, tcx).ty);
                    let v = match self.do_call(&fr, func, args, rt) {
                        Err(Stop::Unwind) => {
                            // the callee panicked: follow this frame's cleanup edge (drops of the live locals), then resume unwinding in the caller
                            self.depth = my_depth;
                            self.loc_stack.truncate(my_depth);
                            match unwind {
                                UnwindAction::Cleanup(c) => { bb = *c; continue; }
                                UnwindAction::Continue => { self.depth -= 1; return Err(Stop::Unwind); }
                                UnwindAction::Unreachable => return unsup("unwinding through a call marked nounwind"),
                                UnwindAction::Terminate(_) => return Err(Stop::Panic("abort: unwinding out of a frame that must not unwind".into())),
                            }
                        }
                        r => r?,
                    };
                    let Some(t) = target else { return Err(Stop::Panic("diverging call returned".into())) };
                    self.write_place(&fr, destination, v)?;
                    bb = *t;
                }
                TerminatorKind::Unreachable => return unsup("reached `unreachable`"),
                o => return unsup(format!("terminator {:?}", o)),
            }
        }
    }

    /// memcpy / memmove of `count` elements of type `et` (element-wise load/store through the value trees; source read completely first)
    pub fn copy_elems(&mut self, src: V<'tcx>, dst: V<'tcx>, cnt: V<'tcx>, et: Ty<'tcx>) -> R<()> {
        let (V::Ptr(s), V::Ptr(d)) = (src, dst) else { return unsup("copy between non-pointers") };
        let V::Int(n) = cnt else { return unsup("copy with a symbolic element count") };
        let stride = leaf_count(self.tcx, et);
        let mut tmp = vec![];
        for k in 0..n as usize {
            let p = Ptr { alloc: s.alloc, path: s.path.clone(), off: s.off + k * stride, sl: None };
            tmp.push(self.load(&p, et)?);
        }
        for (k, v) in tmp.into_iter().enumerate() {
            let p = Ptr { alloc: d.alloc, path: d.path.clone(), off: d.off + k * stride, sl: None };
            self.store(&p, et, v)?;
        }
        Ok(())
    }

    // ---------------------------------------------------------------- drops
    pub fn drop_at(&mut self, p: &Ptr, t: Ty<'tcx>) -> R<()> {
        let tcx = self.tcx;
        if !t.needs_drop(tcx, tyenv()) {
            return Ok(());
        }
        if is_manually_drop(tcx, t) {
            return Ok(());
        }
        // a modelled Zip owns its parked operands: dropping it drops them (by their own types)
        if matches!(t.kind(), ty::Adt(..)) {
            if let Ok(V::Obj(kind, xs)) = self.load(p, t) {
                if kind == "zipg" || kind == "zipx" {
                    for x in xs {
                        if let V::Ptr(q) = x {
                            if let Some(qt) = self.alloc_tys.get(&q.alloc).copied() {
                                self.drop_at(&q, qt)?;
                            }
                        }
                    }
                }
                return Ok(());
            }
        }
        if is_tok(tcx, t) {
            let v = self.load(p, t)?;
            match v {
                V::T(x) => {
                    self.events.push(Event::Drop(x));
                    self.store(p, t, V::Moved)?;
                }
                V::Moved => self.events.push(Event::BadRead("drop of a moved-out token".into())),
                V::Uninit => self.events.push(Event::BadRead("drop of an uninitialised token".into())),
                _ => {}
            }
            return Ok(());
        }
        match t.kind() {
            ty::Adt(a, args) => {
                if let Some(dtor) = tcx.adt_destructor(a.did()) {
                    let inst = Instance::new_raw(dtor.did, args);
                    let rt = tcx.mk_ty_from_kind(ty::Tuple(ty::List::empty()));
                    let pt = Ty::new_mut_ptr(tcx, t);
                    self.call_def(inst.def_id(), inst.args, vec![(V::Ptr(p.clone()), pt)], rt)?;
                }
                if a.is_struct() {
                    let n = leaf_count(tcx, t);
                    let base = self.resolve(p, n)?;
                    if is_transparent_adt(tcx, a.did()) {
                        return self.drop_at(p, inner_of_transparent(tcx, t));
                    }
                    for (i, fd) in a.non_enum_variant().fields.iter().enumerate() {
                        let mut path = base.clone();
                        path.push(PE::F(i as u32));
                        self.drop_at(&Ptr { alloc: p.alloc, path, off: 0, sl: None }, fd.ty(tcx, args))?;
                    }
                } else if a.is_enum() {
                    let v = self.load(p, t)?;
                    if let V::Enum(var, fs) = v {
                        let base = self.resolve(p, 1)?;
                        let tys: Vec<Ty<'tcx>> = a.variant(rustc_abi::VariantIdx::from_u32(var)).fields.iter().map(|fd| fd.ty(tcx, args)).collect();
                        for (i, ft) in tys.into_iter().enumerate() {
                            if i < fs.len() {
                                let mut path = base.clone();
                                path.push(PE::F(i as u32));
                                self.drop_at(&Ptr { alloc: p.alloc, path, off: 0, sl: None }, ft)?;
                            }
                        }
                    }
                }
                Ok(())
            }
            ty::Tuple(ts) => {
                let n = leaf_count(tcx, t);
                let base = self.resolve(p, n)?;
                for (i, ft) in ts.iter().enumerate() {
                    let mut path = base.clone();
                    path.push(PE::F(i as u32));
                    self.drop_at(&Ptr { alloc: p.alloc, path, off: 0, sl: None }, ft)?;
                }
                Ok(())
            }
            ty::Array(e, n) => {
                let cnt = leaf_count(tcx, t);
                let base = self.resolve(p, cnt)?;
                for i in 0..arr_len(tcx, *n) {
                    let mut path = base.clone();
                    path.push(PE::F(i as u32));
                    self.drop_at(&Ptr { alloc: p.alloc, path, off: 0, sl: None }, *e)?;
                }
                Ok(())
            }
            ty::Slice(e) => {
                // drop_in_place of a slice: element by element, front to back
                let Some((stride, len)) = p.sl else { return unsup("drop of a slice without metadata") };
                for i in 0..len {
                    self.drop_at(&Ptr { alloc: p.alloc, path: p.path.clone(), off: p.off + i * stride, sl: None }, *e)?;
                }
                Ok(())
            }
            ty::Closure(_, args) => {
                let n = leaf_count(tcx, t);
                let base = self.resolve(p, n)?;
                for (i, ft) in args.as_closure().upvar_tys().iter().enumerate() {
                    let mut path = base.clone();
                    path.push(PE::F(i as u32));
                    self.drop_at(&Ptr { alloc: p.alloc, path, off: 0, sl: None }, ft)?;
                }
                Ok(())
            }
            _ => unsup(format!("drop of {}", t)),
        }
    }
}

fn akind<T: std::fmt::Debug>(m: &T) -> String {
    let s = format!("{:?}", m);
    s.split(|c: char| !c.is_alphanumeric()).next().unwrap_or("").to_string()
}

pub fn glob_match(pat: &str, s: &str) -> bool {
    // `*` matches any run of characters
    let parts: Vec<&str> = pat.split('*').collect();
    if parts.len() == 1 {
        return pat == s;
    }
    let mut pos = 0;
    for (i, p) in parts.iter().enumerate() {
        if p.is_empty() {
            continue;
        }
        match s[pos..].find(p) {
            Some(k) => {
                if i == 0 && k != 0 {
                    return false;
                }
                pos += k + p.len();
            }
            None => return false,
        }
    }
    if !parts.last().unwrap().is_empty() && pos != s.len() {
        return s.ends_with(parts.last().unwrap());
    }
    true
}

#[allow(dead_code)]
fn _unused(_: Term) {}
