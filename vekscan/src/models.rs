//! Models of `core` functions that the interpreter does not descend into.
use crate::interp::*;
use crate::terms::Term;
use crate::value::*;
use rustc_middle::ty::{self, Ty};
use rustc_span::def_id::DefId;

fn strip_generics(s: &str) -> String {
    // remove `::<...>` groups so that names are stable
    let mut out = String::new();
    let mut depth = 0;
    let b: Vec<char> = s.chars().collect();
    let mut i = 0;
    while i < b.len() {
        if depth == 0 && b[i] == ':' && i + 2 < b.len() && b[i + 1] == ':' && b[i + 2] == '<' {
            // could be `::<impl ...>` path segment (keep) or generic args (drop)
            let rest: String = b[i + 3..].iter().take(5).collect();
            if rest.starts_with("impl ") {
                out.push(b[i]);
                i += 1;
                continue;
            }
            depth = 1;
            i += 3;
            continue;
        }
        if depth > 0 {
            if b[i] == '<' {
                depth += 1
            } else if b[i] == '>' {
                depth -= 1
            }
            i += 1;
            continue;
        }
        out.push(b[i]);
        i += 1;
    }
    out
}

impl<'tcx> M<'tcx> {
    fn deref_arg(&mut self, v: &V<'tcx>, t: Ty<'tcx>) -> R<(V<'tcx>, Ty<'tcx>)> {
        match (v, t.kind()) {
            (V::Ptr(p), ty::Ref(_, inner, _)) | (V::Ptr(p), ty::RawPtr(inner, _)) => Ok((self.load(p, *inner)?, *inner)),
            _ => Ok((v.clone(), t)),
        }
    }

    /// next / next_back / len / size_hint on a modelled iterator value
    pub fn iter_method(&mut self, it: &mut V<'tcx>, m: &str) -> R<V<'tcx>> {
        let remaining = |it: &V<'tcx>| -> Option<usize> {
            fn rem(it: &V<'_>) -> Option<usize> {
                match it {
                    V::SliceIter(_, a, b, _) => Some(b - a),
                    V::Obj("zip", xs) => Some(rem(&xs[0])?.min(rem(&xs[1])?)),
                    _ => None,
                }
            }
            rem(it)
        };
        match m {
            "len" => return remaining(it).map(|k| V::Int(k as i128)).ok_or_else(|| Stop::Unsupported("len of modelled iterator".into())),
            "size_hint" => {
                let k = remaining(it).ok_or_else(|| Stop::Unsupported("size_hint of modelled iterator".into()))? as i128;
                return Ok(V::Agg(vec![V::Int(k), V::Enum(1, vec![V::Int(k)])]));
            }
            _ => {}
        }
        match it {
            V::SliceIter(sp, a, b, _) => {
                let (stride, _) = sp.sl.unwrap();
                if *a >= *b {
                    return Ok(V::Enum(0, vec![]));
                }
                let k = if m == "next" {
                    *a += 1;
                    *a - 1
                } else {
                    *b -= 1;
                    *b
                };
                Ok(V::Enum(1, vec![V::Ptr(Ptr { alloc: sp.alloc, path: sp.path.clone(), off: sp.off + k * stride, sl: None })]))
            }
            V::Obj("zip", xs) => {
                if m != "next" {
                    return unsup("next_back on zip");
                }
                if remaining(&xs[0]) == Some(0) || remaining(&xs[1]) == Some(0) {
                    return Ok(V::Enum(0, vec![]));
                }
                let (l, r) = xs.split_at_mut(1);
                let x = self.iter_method(&mut l[0], "next")?;
                let y = self.iter_method(&mut r[0], "next")?;
                match (x, y) {
                    (V::Enum(1, mut a), V::Enum(1, mut b)) => Ok(V::Enum(1, vec![V::Agg(vec![a.remove(0), b.remove(0)])])),
                    _ => Ok(V::Enum(0, vec![])),
                }
            }
            V::Obj("zipx", xs) => {
                // modelled iterator zipped with an arbitrary one (kept in an allocation, its type in alloc_tys): std order, left first
                if m != "next" {
                    return unsup("next_back on zip");
                }
                let (l, r) = xs.split_at_mut(1);
                let x = self.iter_method(&mut l[0], "next")?;
                let V::Enum(1, mut a) = x else { return Ok(V::Enum(0, vec![])) };
                let V::Ptr(bp) = r[0].clone() else { return unsup("zipx right operand") };
                let Some(bt) = self.alloc_tys.get(&bp.alloc).copied() else { return unsup("zipx right operand type") };
                let tcx = self.tcx;
                let Some(itr) = tcx.get_diagnostic_item(rustc_span::sym::Iterator) else { return unsup("Iterator trait not found") };
                let Some(nx) = tcx.associated_items(itr).filter_by_name_unhygienic(rustc_span::Symbol::intern("next")).next().map(|a| a.def_id) else { return unsup("Iterator::next not found") };
                let rt = Ty::new_mut_ref(tcx, tcx.lifetimes.re_erased, bt);
                let args = tcx.mk_args(&[bt.into()]);
                let y = self.call_def(nx, args, vec![(V::Ptr(bp), rt)], tcx.types.unit)?;
                match y {
                    V::Enum(1, mut b) => Ok(V::Enum(1, vec![V::Agg(vec![a.remove(0), b.remove(0)])])),
                    V::Enum(0, _) => Ok(V::Enum(0, vec![])),
                    o => unsup(format!("zipped iterator returned {:?}", o)),
                }
            }
            V::Obj("zipg", xs) => {
                if m != "next" {
                    return unsup("next_back on zip");
                }
                let tcx = self.tcx;
                let (V::Ptr(lp), V::Ptr(rp)) = (xs[0].clone(), xs[1].clone()) else { return unsup("zipg operands") };
                let (Some(lt), Some(rt)) = (self.alloc_tys.get(&lp.alloc).copied(), self.alloc_tys.get(&rp.alloc).copied()) else { return unsup("zipg operand types") };
                let Some(itr) = tcx.get_diagnostic_item(rustc_span::sym::Iterator) else { return unsup("Iterator trait not found") };
                let items = tcx.associated_items(itr);
                let Some(nx) = items.filter_by_name_unhygienic(rustc_span::Symbol::intern("next")).next().map(|a| a.def_id) else { return unsup("Iterator::next not found") };
                let Some(item) = items.filter_by_name_unhygienic(rustc_span::Symbol::intern("Item")).next().map(|a| a.def_id) else { return unsup("Iterator::Item not found") };
                let mut pull = |me: &mut Self, p: Ptr, t: Ty<'tcx>| -> R<V<'tcx>> {
                    let cur = me.load(&p, t)?;
                    if matches!(cur, V::SliceIter(..) | V::Obj(..)) {
                        let mut it = cur;
                        let r = me.iter_method(&mut it, "next")?;
                        me.store(&p, t, it)?;
                        return Ok(r);
                    }
                    let rt = Ty::new_mut_ref(tcx, tcx.lifetimes.re_erased, t);
                    me.call_def(nx, tcx.mk_args(&[t.into()]), vec![(V::Ptr(p), rt)], tcx.types.unit)
                };
                let x = pull(self, lp, lt)?;
                let V::Enum(1, mut a) = x else { return Ok(V::Enum(0, vec![])) };
                let y = pull(self, rp, rt)?;
                match y {
                    V::Enum(1, mut b) => Ok(V::Enum(1, vec![V::Agg(vec![a.remove(0), b.remove(0)])])),
                    V::Enum(0, _) => {
                        // the left item has no partner: it is dropped here
                        let ity = tcx.normalize_erasing_regions(tyenv(), ty::Unnormalized::new_wip(Ty::new_projection(tcx, item, tcx.mk_args(&[lt.into()]))));
                        let al = self.new_alloc(a.remove(0), "unpaired-zip-item");
                        self.drop_at(&Ptr { alloc: al, path: vec![], off: 0, sl: None }, ity)?;
                        Ok(V::Enum(0, vec![]))
                    }
                    o => unsup(format!("zipped iterator returned {:?}", o)),
                }
            }
            o => unsup(format!("iterator method {} on {:?}", m, o)),
        }
    }

    pub fn model(&mut self, d: DefId, cargs: ty::GenericArgsRef<'tcx>, name: &str, vals: &mut Vec<(V<'tcx>, Ty<'tcx>)>, ret_ty: Ty<'tcx>) -> R<Option<V<'tcx>>> {
        let tcx = self.tcx;
        let n = strip_generics(name);
        let n = n.replace("core::", "std::");
        let n = n.as_str();
        if let Some(v) = self.model_observers(d, cargs, n, vals, ret_ty)? {
            return Ok(Some(v));
        }
        let ptr_arg = |vals: &Vec<(V<'tcx>, Ty<'tcx>)>, i: usize| -> R<Ptr> {
            match &vals[i].0 {
                V::Ptr(p) => Ok(p.clone()),
                o => unsup(format!("model {}: argument {} is not a pointer: {:?}", name, i, o)),
            }
        };
        let pointee = |t: Ty<'tcx>| -> Ty<'tcx> {
            match t.kind() {
                ty::Ref(_, i, _) | ty::RawPtr(i, _) => *i,
                _ => t,
            }
        };
        // cold never-returning failure functions of core (slice length mismatch, index out of range, ...): a panic outcome
        if n.ends_with("len_mismatch_fail") || n.ends_with("slice_index_fail") || n.ends_with("slice_start_index_len_fail") || n.ends_with("slice_end_index_len_fail") || n.ends_with("slice_index_order_fail") {
            return Err(Stop::Panic(format!("{} (core failure path)", n)));
        }
        match n {
            // ---- panics
            "std::panicking::panic" | "std::panicking::panic_fmt" | "std::panicking::panic_nounwind" | "std::panicking::panic_explicit" | "std::panicking::assert_failed" | "std::panicking::panic_display" | "std::panicking::panic_str_2015" | "std::rt::begin_panic" | "std::rt::panic_fmt" | "std::panicking::begin_panic" | "std::panicking::unreachable_display" | "std::panicking::panic_bounds_check" | "std::option::unwrap_failed" | "std::option::expect_failed" | "std::result::unwrap_failed" | "std::panicking::panic_const::panic_const_div_by_zero" => {
                let msg = vals.iter().find_map(|(v, _)| if let V::Str(s) = v { Some(s.clone()) } else { None }).unwrap_or_default();
                return Err(Stop::Panic(format!("{} {}", n, msg)));
            }
            // ---- transparent wrappers
            "std::mem::ManuallyDrop::new" | "std::mem::ManuallyDrop::into_inner" | "std::mem::MaybeUninit::new" | "std::mem::MaybeUninit::assume_init" | "std::mem::MaybeDangling::new" | "std::mem::MaybeDangling::into_inner" | "std::mem::manually_drop::ManuallyDrop::new" | "std::mem::manually_drop::ManuallyDrop::into_inner" | "std::mem::maybe_uninit::MaybeUninit::assume_init" | "std::mem::maybe_uninit::MaybeUninit::new" => {
                return Ok(Some(vals[0].0.clone()));
            }
            "std::mem::MaybeUninit::uninit" | "std::mem::maybe_uninit::MaybeUninit::uninit" => return Ok(Some(mk_uninit(tcx, ret_ty))),
            "std::mem::MaybeUninit::as_mut_ptr" | "std::mem::MaybeUninit::as_ptr" | "std::mem::maybe_uninit::MaybeUninit::as_mut_ptr" | "std::mem::maybe_uninit::MaybeUninit::as_ptr" | "<std::mem::ManuallyDrop<T> as std::ops::Deref>::deref" | "<std::mem::ManuallyDrop<T> as std::ops::DerefMut>::deref_mut" | "<std::mem::MaybeDangling<P> as std::ops::Deref>::deref" | "<std::mem::MaybeDangling<P> as std::ops::DerefMut>::deref_mut" => {
                return Ok(Some(vals[0].0.clone()));
            }
            "std::mem::ManuallyDrop::drop" | "std::mem::manually_drop::ManuallyDrop::drop" => {
                let p = ptr_arg(vals, 0)?;
                let inner = inner_of_transparent(tcx, pointee(vals[0].1));
                self.drop_at(&p, inner)?;
                return Ok(Some(V::unit()));
            }
            "std::ptr::drop_in_place" => {
                let p = ptr_arg(vals, 0)?;
                let t = pointee(vals[0].1);
                self.drop_at(&p, t)?;
                return Ok(Some(V::unit()));
            }
            "std::mem::drop" => {
                let (v, t) = vals[0].clone();
                let a = self.new_alloc(v, "dropped");
                self.drop_at(&Ptr { alloc: a, path: vec![], off: 0, sl: None }, t)?;
                return Ok(Some(V::unit()));
            }
            "std::mem::forget" => return Ok(Some(V::unit())),
            "std::mem::size_of" | "std::intrinsics::size_of" | "std::mem::align_of" | "std::intrinsics::align_of" => {
                let t = cargs.types().next().unwrap();
                let l = tcx.layout_of(tyenv().as_query_input(t)).map_err(|_| Stop::Unsupported("layout".into()))?;
                let v = if n.ends_with("size_of") { l.size.bytes() } else { l.align.abi.bytes() };
                return Ok(Some(V::Int(v as i128)));
            }
            "std::mem::replace" => {
                let p = ptr_arg(vals, 0)?;
                let t = vals[1].1;
                let old = self.load(&p, t)?;
                let nv = vals[1].0.clone();
                self.store(&p, t, nv)?;
                return Ok(Some(old));
            }
            "std::mem::swap" | "std::ptr::swap" => {
                let p = ptr_arg(vals, 0)?;
                let q = ptr_arg(vals, 1)?;
                let t = pointee(vals[0].1);
                let a = self.load(&p, t)?;
                let b = self.load(&q, t)?;
                self.store(&p, t, b)?;
                self.store(&q, t, a)?;
                return Ok(Some(V::unit()));
            }
            "std::mem::take" => {
                return Ok(None);
            }
            "std::ptr::read" | "std::ptr::read_unaligned" | "std::ptr::const_ptr::<impl *const T>::read" | "std::ptr::mut_ptr::<impl *mut T>::read" => {
                let p = ptr_arg(vals, 0)?;
                return Ok(Some(self.load(&p, ret_ty)?));
            }
            "std::ptr::write" | "std::ptr::mut_ptr::<impl *mut T>::write" => {
                let p = ptr_arg(vals, 0)?;
                let (v, t) = vals[1].clone();
                self.store(&p, t, v)?;
                return Ok(Some(V::unit()));
            }
            "std::ptr::const_ptr::<impl *const T>::add" | "std::ptr::mut_ptr::<impl *mut T>::add" | "std::ptr::const_ptr::<impl *const T>::offset" | "std::ptr::mut_ptr::<impl *mut T>::offset" => {
                let p = ptr_arg(vals, 0)?;
                let V::Int(k) = vals[1].0 else { return unsup("symbolic pointer offset") };
                let stride = leaf_count(tcx, pointee(vals[0].1)) as i128;
                let off = p.off as i128 + k * stride;
                if off < 0 {
                    return unsup("negative pointer offset");
                }
                return Ok(Some(V::Ptr(Ptr { alloc: p.alloc, path: p.path, off: off as usize, sl: None })));
            }
            "std::intrinsics::copy" | "std::intrinsics::copy_nonoverlapping" | "std::ptr::copy" | "std::ptr::copy_nonoverlapping" => {
                let et = pointee(vals[0].1);
                self.copy_elems(vals[0].0.clone(), vals[1].0.clone(), vals[2].0.clone(), et)?;
                return Ok(Some(V::unit()));
            }
            "std::ptr::const_ptr::<impl *const T>::sub" | "std::ptr::mut_ptr::<impl *mut T>::sub" => {
                let p = ptr_arg(vals, 0)?;
                let V::Int(k) = vals[1].0 else { return unsup("symbolic pointer offset") };
                let stride = leaf_count(tcx, pointee(vals[0].1)) as i128;
                let off = p.off as i128 - k * stride;
                if off < 0 {
                    return unsup("negative pointer offset");
                }
                return Ok(Some(V::Ptr(Ptr { alloc: p.alloc, path: p.path, off: off as usize, sl: None })));
            }
            "std::intrinsics::ptr_offset_from_unsigned" | "std::intrinsics::ptr_offset_from" | "std::ptr::const_ptr::<impl *const T>::offset_from" | "std::ptr::mut_ptr::<impl *mut T>::offset_from" | "std::ptr::const_ptr::<impl *const T>::offset_from_unsigned" | "std::ptr::mut_ptr::<impl *mut T>::offset_from_unsigned" => {
                let a = ptr_arg(vals, 0)?;
                let b = ptr_arg(vals, 1)?;
                let stride = leaf_count(tcx, pointee(vals[0].1)) as i128;
                if a.alloc != b.alloc || a.path != b.path || stride == 0 {
                    return unsup("pointer difference between different objects");
                }
                return Ok(Some(V::Int((a.off as i128 - b.off as i128) / stride)));
            }
            "std::ptr::const_ptr::<impl *const T>::cast" | "std::ptr::mut_ptr::<impl *mut T>::cast" | "std::ptr::mut_ptr::<impl *mut T>::cast_const" | "std::ptr::const_ptr::<impl *const T>::cast_mut" => {
                let mut p = ptr_arg(vals, 0)?;
                p.sl = None;
                return Ok(Some(V::Ptr(p)));
            }
            // ---- slices
            "std::slice::from_raw_parts" | "std::slice::from_raw_parts_mut" | "std::slice::raw::from_raw_parts" | "std::slice::raw::from_raw_parts_mut" | "std::ptr::slice_from_raw_parts" | "std::ptr::slice_from_raw_parts_mut" => {
                let p = ptr_arg(vals, 0)?;
                let V::Int(len) = vals[1].0 else { return unsup("symbolic slice length") };
                let et = pointee(vals[0].1);
                let stride = leaf_count(tcx, et);
                let base = self.get(p.alloc, &p.path)?;
                let total = vleaves(&base);
                if p.off + stride * len as usize > total {
                    self.events.push(Event::RawSlice(format!("{}", et), self.alloc_names[p.alloc].clone(), total - p.off.min(total), stride, len as usize));
                    return unsup(format!("from_raw_parts: {} elements of {} leaves exceed the {} leaves of the pointee", len, stride, total));
                }
                self.events.push(Event::RawSlice(format!("{}", et), self.alloc_names[p.alloc].clone(), total - p.off, stride, len as usize));
                return Ok(Some(V::Ptr(Ptr { alloc: p.alloc, path: p.path, off: p.off, sl: Some((stride, len as usize)) })));
            }
            "std::slice::<impl [T]>::as_ptr" | "std::slice::<impl [T]>::as_mut_ptr" => {
                let mut p = ptr_arg(vals, 0)?;
                p.sl = None;
                return Ok(Some(V::Ptr(p)));
            }
            "std::slice::<impl [T]>::len" => {
                let p = ptr_arg(vals, 0)?;
                let Some((_, len)) = p.sl else { return unsup("len of pointer without metadata") };
                return Ok(Some(V::Int(len as i128)));
            }
            "std::slice::<impl [T]>::is_empty" => {
                let p = ptr_arg(vals, 0)?;
                let Some((_, len)) = p.sl else { return unsup("len of pointer without metadata") };
                return Ok(Some(V::Int((len == 0) as i128)));
            }
            "std::slice::<impl [T]>::get_unchecked" | "std::slice::<impl [T]>::get_unchecked_mut" | "<[T] as std::ops::Index<I>>::index" | "<[T] as std::ops::IndexMut<I>>::index_mut" | "std::slice::index::<impl std::ops::Index<I> for [T]>::index" | "std::slice::index::<impl std::ops::IndexMut<I> for [T]>::index_mut" | "std::array::<impl std::ops::Index<I> for [T; N]>::index" | "std::array::<impl std::ops::IndexMut<I> for [T; N]>::index_mut" | "std::slice::<impl [T]>::get" | "std::slice::<impl [T]>::get_mut" => {
                let p = ptr_arg(vals, 0)?;
                let checked = !n.contains("unchecked");
                let optional = n.ends_with("::get") || n.ends_with("::get_mut");
                let (stride, len) = match (p.sl, pointee(vals[0].1).kind()) {
                    (Some(s), _) => s,
                    (None, ty::Array(e, k)) => (leaf_count(tcx, *e), arr_len(tcx, *k)),
                    _ => return unsup(format!("{} on pointer without slice metadata", n)),
                };
                match &vals[1].0 {
                    V::Int(k) => {
                        let k = *k as usize;
                        if k >= len {
                            if optional {
                                return Ok(Some(V::Enum(0, vec![])));
                            }
                            if checked {
                                return Err(Stop::Panic("index out of bounds".into()));
                            }
                            return unsup(format!("get_unchecked({}) out of bounds of a {}-element slice (undefined behaviour)", k, len));
                        }
                        let e = V::Ptr(Ptr { alloc: p.alloc, path: p.path, off: p.off + k * stride, sl: None });
                        return Ok(Some(if optional { V::Enum(1, vec![e]) } else { e }));
                    }
                    V::Agg(r) => {
                        // Range / RangeTo / RangeFrom / RangeFull by type name
                        let rn = format!("{}", vals[1].1);
                        let ints: Vec<i128> = r.iter().filter_map(|x| if let V::Int(i) = x { Some(*i) } else { None }).collect();
                        if ints.len() != r.len() {
                            return unsup("symbolic range bounds");
                        }
                        let (a, b) = if rn.contains("RangeFull") {
                            (0, len)
                        } else if rn.contains("RangeInclusive") {
                            return unsup("RangeInclusive index");
                        } else if rn.contains("RangeTo") {
                            (0, ints[0] as usize)
                        } else if rn.contains("RangeFrom") {
                            (ints[0] as usize, len)
                        } else if rn.contains("Range") {
                            (ints[0] as usize, ints[1] as usize)
                        } else {
                            return unsup(format!("index type {}", rn));
                        };
                        if a > b || b > len {
                            if checked {
                                return Err(Stop::Panic(format!("slice index {}..{} out of range for length {}", a, b, len)));
                            }
                            return unsup("unchecked range out of bounds (undefined behaviour)");
                        }
                        return Ok(Some(V::Ptr(Ptr { alloc: p.alloc, path: p.path, off: p.off + a * stride, sl: Some((stride, b - a)) })));
                    }
                    o => return unsup(format!("index value {:?}", o)),
                }
            }
            "std::slice::<impl [T]>::iter" | "std::slice::<impl [T]>::iter_mut" | "<&'a [T] as std::iter::IntoIterator>::into_iter" | "<&'a mut [T] as std::iter::IntoIterator>::into_iter" | "std::slice::iter::<impl std::iter::IntoIterator for &'a [T]>::into_iter" | "std::slice::iter::<impl std::iter::IntoIterator for &'a mut [T]>::into_iter" | "std::array::<impl std::iter::IntoIterator for &'a [T; N]>::into_iter" | "std::array::<impl std::iter::IntoIterator for &'a mut [T; N]>::into_iter" => {
                let p = ptr_arg(vals, 0)?;
                let (stride, len) = match (p.sl, pointee(vals[0].1).kind()) {
                    (Some(s), _) => s,
                    (None, ty::Array(e, k)) => (leaf_count(tcx, *e), arr_len(tcx, *k)),
                    _ => return unsup("iter on pointer without slice metadata"),
                };
                let m = n.contains("mut") as u32;
                return Ok(Some(V::SliceIter(Ptr { alloc: p.alloc, path: p.path, off: p.off, sl: Some((stride, len)) }, 0, len, m)));
            }
            "<I as std::iter::IntoIterator>::into_iter" => return Ok(Some(vals[0].0.clone())),
            _ => {}
        }
        // ---- methods on modelled iterators (value-based dispatch)
        if let Some((V::Ptr(p), t0)) = vals.first().cloned() {
            let inner = pointee(t0);
            let m = n.rsplit("::").next().unwrap_or("");
            if matches!(m, "next" | "next_back" | "len" | "size_hint") && !matches!(inner.kind(), ty::Slice(_) | ty::Array(..)) {
                if let Ok(cur) = self.load(&p, inner) {
                    if matches!(cur, V::SliceIter(..) | V::Obj(..)) {
                        let mut it = cur;
                        let r = self.iter_method(&mut it, m)?;
                        self.store(&p, inner, it)?;
                        return Ok(Some(r));
                    }
                }
            }
        }
        // nth / nth_back on the slice iterator (Skip, StepBy over slices): skip k items, then next
        if let (Some((V::Ptr(p), t0)), Some((V::Int(k), _))) = (vals.first().cloned(), vals.get(1).cloned()) {
            let m = n.rsplit("::").next().unwrap_or("");
            if (m == "nth" || m == "nth_back") && vals.len() == 2 {
                let inner = pointee(t0);
                if let Ok(V::Obj(kind, xs)) = self.load(&p, inner) {
                    // nth on a modelled Zip whose items are references (slice iterators on the left): skip k items by pulling them
                    if m == "nth" && (kind == "zip" || kind == "zipx") {
                        let mut it = V::Obj(kind, xs);
                        let mut r = V::Enum(0, vec![]);
                        for _ in 0..=(k.max(0) as usize) {
                            r = self.iter_method(&mut it, "next")?;
                            if matches!(r, V::Enum(0, _)) {
                                break;
                            }
                        }
                        self.store(&p, inner, it)?;
                        return Ok(Some(r));
                    }
                }
                if let Ok(V::SliceIter(sp, mut a, mut b, mu)) = self.load(&p, inner) {
                    let k = (k.max(0) as usize).min(b - a);
                    if m == "nth" {
                        a += k
                    } else {
                        b -= k
                    }
                    let mut it = V::SliceIter(sp, a, b, mu);
                    let r = self.iter_method(&mut it, if m == "nth" { "next" } else { "next_back" })?;
                    self.store(&p, inner, it)?;
                    return Ok(Some(r));
                }
            }
        }
        if n.ends_with("::fold") && vals.len() == 3 && matches!(vals[0].0, V::SliceIter(..) | V::Obj(..)) {
            // Iterator::fold over a modelled iterator: left fold in iteration order
            let mut it = vals[0].0.clone();
            let (mut acc, acc_ty) = vals[1].clone();
            let (fv, fty) = vals[2].clone();
            let item_ty = match peel_refs(vals[0].1).kind() {
                ty::Adt(_, a) => a.types().next().map(|t| Ty::new_imm_ref(tcx, tcx.lifetimes.re_erased, t)),
                _ => None,
            };
            loop {
                let nx = self.iter_method(&mut it, "next")?;
                match nx {
                    V::Enum(1, mut e) => {
                        let item = e.remove(0);
                        let ity = item_ty.unwrap_or(acc_ty);
                        acc = self.call_callable(fv.clone(), fty, vec![(acc, acc_ty), (item, ity)], acc_ty)?;
                    }
                    _ => break,
                }
            }
            return Ok(Some(acc));
        }
        if n.ends_with("::for_each") && vals.len() == 2 && matches!(vals[0].0, V::SliceIter(..) | V::Obj("zip", _) | V::Obj("zipx", _) | V::Obj("zipg", _)) {
            let mut it = vals[0].0.clone();
            let (fv, fty) = vals[1].clone();
            loop {
                let nx = self.iter_method(&mut it, "next")?;
                let V::Enum(1, mut e) = nx else { break };
                let item = e.remove(0);
                self.call_callable(fv.clone(), fty, vec![(item, tcx.types.unit)], tcx.types.unit)?;
            }
            return Ok(Some(V::unit()));
        }
        if (n.ends_with("Iterator::position") || n.ends_with("Iterator>::position") || n.ends_with("Iterator::find") || n.ends_with("Iterator>::find")) && vals.len() == 2 {
            // position / find over a modelled iterator (through &mut): in iteration order, stops at the first hit
            if let (V::Ptr(p), ty::Ref(_, inner, _)) = (vals[0].0.clone(), vals[0].1.kind()) {
                let inner = *inner;
                if let Ok(mut it) = self.load(&p, inner) {
                    if matches!(it, V::SliceIter(..) | V::Obj("zip", _) | V::Obj("zipx", _) | V::Obj("zipg", _)) {
                        let is_pos = n.ends_with("position");
                        let (fv, fty) = vals[1].clone();
                        let mut idx = 0i128;
                        let mut out = V::Enum(0, vec![]);
                        loop {
                            let nx = self.iter_method(&mut it, "next")?;
                            let V::Enum(1, mut e) = nx else { break };
                            let item = e.remove(0);
                            let arg = if is_pos {
                                item.clone()
                            } else {
                                let a = self.new_alloc(item.clone(), "find-item");
                                V::Ptr(Ptr { alloc: a, path: vec![], off: 0, sl: None })
                            };
                            let r = self.call_callable(fv.clone(), fty, vec![(arg, tcx.types.unit)], tcx.types.bool)?;
                            let b = match r {
                                V::Int(k) => k != 0,
                                V::T(t) => self.decide_bool(t),
                                o => return unsup(format!("predicate returned {:?}", o)),
                            };
                            if b {
                                out = V::Enum(1, vec![if is_pos { V::Int(idx) } else { item }]);
                                break;
                            }
                            idx += 1;
                        }
                        self.store(&p, inner, it)?;
                        return Ok(Some(out));
                    }
                }
            }
        }
        if (n.ends_with("::all") || n.ends_with("::any")) && vals.len() == 2 {
            // Iterator::all / any over a modelled iterator (by value or through &mut): short-circuiting, in iteration order
            let (itv, by_ref) = match (&vals[0].0, vals[0].1.kind()) {
                (V::Ptr(p), ty::Ref(_, inner, _)) => (self.load(&p.clone(), *inner).ok(), Some((p.clone(), *inner))),
                (v, _) => (Some(v.clone()), None),
            };
            if let Some(mut it) = itv {
                if matches!(it, V::SliceIter(..) | V::Obj("zip", _) | V::Obj("zipx", _) | V::Obj("zipg", _)) {
                    let is_all = n.ends_with("::all");
                    let (fv, fty) = vals[1].clone();
                    let item_ty = cargs.types().next().and_then(|t| match peel_refs(t).kind() {
                        _ => None::<Ty<'tcx>>,
                    });
                    let _ = item_ty;
                    let mut result = is_all;
                    loop {
                        let nx = self.iter_method(&mut it, "next")?;
                        let V::Enum(1, mut e) = nx else { break };
                        let item = e.remove(0);
                        let ity = tcx.types.unit; // the callee's own local types are used when its frame is set up
                        let r = self.call_callable(fv.clone(), fty, vec![(item, ity)], tcx.types.bool)?;
                        let b = match r {
                            V::Int(k) => k != 0,
                            V::T(t) => self.decide_bool(t),
                            o => return unsup(format!("predicate returned {:?}", o)),
                        };
                        if is_all && !b {
                            result = false;
                            break;
                        }
                        if !is_all && b {
                            result = true;
                            break;
                        }
                    }
                    if let Some((p, inner)) = by_ref {
                        self.store(&p, inner, it)?;
                    }
                    return Ok(Some(V::Int(result as i128)));
                }
            }
        }
        if n == "std::iter::Iterator::zip" || n == "std::iter::zip" {
            let a = vals[0].0.clone();
            let mut b = vals[1].0.clone();
            // the second operand is any IntoIterator: a slice reference iterates from its first element
            if let V::Ptr(p) = &b {
                if p.sl.is_some() {
                    b = V::SliceIter(p.clone(), 0, p.sl.unwrap().1, 0);
                }
            }
            if matches!(a, V::SliceIter(..) | V::Obj(..)) && matches!(b, V::SliceIter(..) | V::Obj(..)) {
                return Ok(Some(V::Obj("zip", vec![a, b])));
            }
            if matches!(a, V::SliceIter(..) | V::Obj(..)) {
                // right operand: any IntoIterator; convert it with its own into_iter and park it in an allocation
                let ut = vals[1].1;
                if let Some(iit) = tcx.get_diagnostic_item(rustc_span::sym::IntoIterator) {
                    let items = tcx.associated_items(iit);
                    let into = items.filter_by_name_unhygienic(rustc_span::Symbol::intern("into_iter")).next().map(|x| x.def_id);
                    let assoc = items.filter_by_name_unhygienic(rustc_span::Symbol::intern("IntoIter")).next().map(|x| x.def_id);
                    if let (Some(into), Some(assoc)) = (into, assoc) {
                        let args = tcx.mk_args(&[ut.into()]);
                        let it_ty = tcx.normalize_erasing_regions(tyenv(), ty::Unnormalized::new_wip(Ty::new_projection(tcx, assoc, args)));
                        let itv = self.call_def(into, args, vec![(b, ut)], it_ty)?;
                        if matches!(itv, V::SliceIter(..) | V::Obj(..)) {
                            return Ok(Some(V::Obj("zip", vec![a, itv])));
                        }
                        let al = self.new_alloc(itv, "zipped-iterator");
                        self.alloc_tys.insert(al, it_ty);
                        return Ok(Some(V::Obj("zipx", vec![a, V::Ptr(Ptr { alloc: al, path: vec![], off: 0, sl: None })])));
                    }
                }
            }
            // general case: both operands are kept as they are (the right one converted with its own into_iter), parked in allocations;
            // `next` follows std's default Zip: left first, then right; a left item without a partner is dropped
            {
                let lt = vals[0].1;
                let ut = vals[1].1;
                if let Some(iit) = tcx.get_diagnostic_item(rustc_span::sym::IntoIterator) {
                    let items = tcx.associated_items(iit);
                    let into = items.filter_by_name_unhygienic(rustc_span::Symbol::intern("into_iter")).next().map(|x| x.def_id);
                    let assoc = items.filter_by_name_unhygienic(rustc_span::Symbol::intern("IntoIter")).next().map(|x| x.def_id);
                    if let (Some(into), Some(assoc)) = (into, assoc) {
                        let args = tcx.mk_args(&[ut.into()]);
                        let it_ty = tcx.normalize_erasing_regions(tyenv(), ty::Unnormalized::new_wip(Ty::new_projection(tcx, assoc, args)));
                        let itv = if matches!(b, V::SliceIter(..) | V::Obj(..)) { b } else { self.call_def(into, args, vec![(b, ut)], it_ty)? };
                        let al = self.new_alloc(a, "zipped-iterator-left");
                        self.alloc_tys.insert(al, lt);
                        let ar = self.new_alloc(itv, "zipped-iterator-right");
                        self.alloc_tys.insert(ar, it_ty);
                        let mk = |x: usize| V::Ptr(Ptr { alloc: x, path: vec![], off: 0, sl: None });
                        return Ok(Some(V::Obj("zipg", vec![mk(al), mk(ar)])));
                    }
                }
            }
            return unsup("zip: IntoIterator not found");
        }
        // by-value iterator adaptors on the slice iterator: fall back to the generic default bodies
        // Range<usize> iteration
        if n == "std::iter::range::<impl std::iter::Iterator for std::ops::Range<A>>::next" || n == "<std::ops::Range<T> as std::iter::range::RangeIteratorImpl>::spec_next" {
            let p = ptr_arg(vals, 0)?;
            let t = pointee(vals[0].1);
            let r = self.load(&p, t)?;
            if let V::Agg(fs) = &r {
                if let (V::Int(s), V::Int(e)) = (&fs[0], &fs[1]) {
                    if s < e {
                        self.store(&p, t, V::Agg(vec![V::Int(s + 1), V::Int(*e)]))?;
                        return Ok(Some(V::Enum(1, vec![V::Int(*s)])));
                    } else {
                        return Ok(Some(V::Enum(0, vec![])));
                    }
                }
            }
            return unsup(format!("range next on {:?}", r));
        }
        // Clone / identity-like conversions on scalars
        let last = n.rsplit("::").next().unwrap_or("");
        if (last == "clone" && n.contains("Clone")) || (last == "borrow" && n.contains("Borrow<T> for T")) {
            let (v, t) = self.deref_arg(&vals[0].0.clone(), vals[0].1)?;
            if is_scalar_ty(t) || matches!(v, V::T(_) | V::Int(_)) && !is_tok(tcx, t) {
                return Ok(Some(v));
            }
        }
        if n == "<T as std::convert::Into<U>>::into" || n == "<T as std::convert::From<T>>::from" {
            // descend (generic body) — but scalars T -> T are identities
            if vals[0].1 == ret_ty {
                return Ok(Some(vals[0].0.clone()));
            }
        }
        if n == "std::hint::black_box" || n == "std::intrinsics::black_box" || n == "std::convert::identity" {
            return Ok(Some(vals[0].0.clone()));
        }
        if n == "std::intrinsics::assume" || n == "std::hint::assert_unchecked" || n == "std::intrinsics::cold_path" || n == "std::intrinsics::assert_inhabited" || n == "std::intrinsics::assert_zero_valid" || n == "std::intrinsics::assert_mem_uninitialized_valid" {
            return Ok(Some(V::unit()));
        }
        if n == "std::intrinsics::likely" || n == "std::intrinsics::unlikely" {
            return Ok(Some(vals[0].0.clone()));
        }
        if n == "std::intrinsics::transmute" || n == "std::intrinsics::transmute_unchecked" {
            let (v, t) = vals[0].clone();
            return Ok(Some(self.cast(rustc_middle::mir::CastKind::Transmute, v, t, ret_ty)?));
        }
        if n == "std::intrinsics::typed_swap_nonoverlapping" {
            let p = ptr_arg(vals, 0)?;
            let q = ptr_arg(vals, 1)?;
            let t = pointee(vals[0].1);
            let a = self.load(&p, t)?;
            let b = self.load(&q, t)?;
            self.store(&p, t, b)?;
            self.store(&q, t, a)?;
            return Ok(Some(V::unit()));
        }
        if n == "std::intrinsics::ub_checks" || n == "std::ub_checks::check_language_ub" || n == "std::intrinsics::overflow_checks" {
            return Ok(Some(V::Int(0)));
        }
        // formatting: recorded as an output trace
        if n == "std::fmt::Formatter::<'a>::write_str" || n == "std::fmt::Formatter::write_str" || n == "<std::fmt::Formatter<'_> as std::fmt::Write>::write_str" {
            if let V::Str(s) = &vals[1].0 {
                self.events.push(Event::Fmt(s.clone()));
                return Ok(Some(V::Enum(0, vec![V::unit()])));
            }
        }
        if n == "std::fmt::Formatter::<'a>::write_fmt" || n == "std::fmt::Formatter::write_fmt" {
            match &vals[1].0 {
                V::Str(s) => self.events.push(Event::Fmt(s.clone())),
                o => {
                    let mut l = vec![];
                    match o {
                        V::Obj("fmtargs", k) => l.extend(k.iter().cloned()),
                        o => flatten(o, &mut l),
                    }
                    let mut pieces = vec![];
                    for x in l {
                        match x {
                            V::Str(s) => pieces.push(s),
                            V::T(t) => self.events.push(Event::FmtArg(t)),
                            _ => {}
                        }
                    }
                    self.events.push(Event::Fmt(pieces.join("|")));
                }
            }
            return Ok(Some(V::Enum(0, vec![V::unit()])));
        }
        if n.starts_with("std::fmt::Arguments::<'a>::") || n.starts_with("std::fmt::Arguments::") || n.starts_with("std::fmt::rt::Argument") {
            // keep only literal pieces and formatted leaves
            let mut l = vec![];
            for (v, t) in vals.iter() {
                // arguments are references (possibly to references) to the formatted values: follow them down to the value
                let (mut dv, mut dt) = (v.clone(), *t);
                for _ in 0..4 {
                    match (&dv, dt.kind()) {
                        (V::Ptr(_), ty::Ref(..)) | (V::Ptr(_), ty::RawPtr(..)) => match self.deref_arg(&dv, dt) {
                            Ok((nv, nt)) => {
                                dv = nv;
                                dt = nt;
                            }
                            Err(_) => break,
                        },
                        _ => break,
                    }
                }
                flatten(&dv, &mut l);
            }
            let keep: Vec<V<'tcx>> = l.into_iter().filter(|x| matches!(x, V::Str(_) | V::T(_))).collect();
            if n.starts_with("std::fmt::Arguments") && is_opaque_leaf(tcx, ret_ty) {
                return Ok(Some(if keep.len() == 1 && matches!(keep[0], V::Str(_)) { keep.into_iter().next().unwrap() } else { V::Obj("fmtargs", keep) }));
            }
            return Ok(Some(if keep.len() == 1 { keep.into_iter().next().unwrap() } else { V::Agg(keep) }));
        }
        // Display / Debug etc. of scalars and tokens: a formatted leaf
        if matches!(last, "fmt") && vals.len() == 2 {
            let (v, t) = self.deref_arg(&vals[0].0.clone(), vals[0].1)?;
            if is_scalar_ty(t) || is_tok(tcx, t) {
                if let Ok(x) = self.lift(&v, t) {
                    if is_tok(tcx, t) {
                        self.events.push(Event::Touch(x));
                    }
                    self.events.push(Event::FmtVal(x));
                    return Ok(Some(V::Enum(0, vec![V::unit()])));
                }
            }
        }
        let _ = Term::CInt(0, String::new());
        Ok(None)
    }
}
