"""Meaning of the driver's free terms: term DAG -> canonical rational expressions / boolean formulas."""
import struct
from fractions import Fraction
from . import alg
from .alg import Rat, C, fn, sqrt
from .alg import named_raw as named


# ------------------------------------------------------------------ boolean formulas
class B:
    """kinds: const(bool) | gt0(Rat) | ge0(Rat) | eq0(Rat) | ne0(Rat) | var(name) | truthy(Rat) | not(B) | and(B,B) | or(B,B)"""
    __slots__ = ('k', 'a')

    def __init__(self, k, *a):
        self.k = k; self.a = a

    @staticmethod
    def const(v): return B('const', bool(v))

    @staticmethod
    def cmp(kind, r):
        if r.is_const():
            v = r.const_value()
            return B.const({'gt0': v > 0, 'ge0': v >= 0, 'eq0': v == 0, 'ne0': v != 0}[kind])
        # scale the numerator by the absolute value of its leading coefficient
        _, lc = r.num.lead()
        if abs(lc) != 1:
            r = Rat(r.num.scale(1 / abs(lc)), r.den)
        if kind in ('eq0', 'ne0'):
            _, lc = r.num.lead()
            if lc < 0: r = -r
        return B(kind, r)

    def neg(self):
        k = self.k
        if k == 'const': return B.const(not self.a[0])
        if k == 'gt0': return B.cmp('ge0', -self.a[0])
        if k == 'ge0': return B.cmp('gt0', -self.a[0])
        if k == 'eq0': return B('ne0', self.a[0])
        if k == 'ne0': return B('eq0', self.a[0])
        if k == 'not': return self.a[0]
        return B('not', self)

    def and_(self, o):
        if self.k == 'const': return o if self.a[0] else self
        if o.k == 'const': return self if o.a[0] else o
        return B('and', self, o)

    def or_(self, o):
        if self.k == 'const': return self if self.a[0] else o
        if o.k == 'const': return o if o.a[0] else self
        return B('or', self, o)

    def __eq__(self, o):
        if self is o: return True
        if not isinstance(o, B) or self.k != o.k or len(self.a) != len(o.a): return False
        if self.k in ('and', 'or', 'not'):
            # formulas are DAGs with shared sub-formulas (a chain of != doubles its operands at every level): compare interned structural keys
            return skey(self) == skey(o)
        return all(x == y for x, y in zip(self.a, o.a))

    def __ne__(self, o): return not self.__eq__(o)

    def __hash__(self): return hash(self.k)

    def __str__(self):
        return self._str([4000])

    def _str(self, budget):
        # printed form with a size budget: shared sub-formulas would otherwise print exponentially
        if budget[0] <= 0: return '...'
        k = self.k
        if k in ('and', 'or', 'not'):
            if k == 'not':
                r = '!(%s)' % self.a[0]._str(budget)
            else:
                l = self.a[0]._str(budget); rr = self.a[1]._str(budget)
                r = '(%s %s %s)' % (l, '&&' if k == 'and' else '||', rr)
            budget[0] -= 8
            return r
        r = self._str_leaf(); budget[0] -= len(r)
        return r

    def _str_leaf(self):
        k = self.k
        if k == 'const': return str(self.a[0])
        if k in ('gt0', 'ge0', 'eq0', 'ne0'):
            return '[%s %s 0]' % (self.a[0], {'gt0': '>', 'ge0': '>=', 'eq0': '==', 'ne0': '!='}[k])
        if k == 'var': return self.a[0]
        if k == 'truthy': return 'truthy(%s)' % (self.a[0],)
        if k == 'not': return '!(%s)' % self.a[0]
        return '(%s %s %s)' % (self.a[0], '&&' if k == 'and' else '||', self.a[1])

    __repr__ = __str__

    def eval(self, env, memo=None):
        # shared sub-formulas (a chain of != on booleans doubles its operands at every level) are evaluated once
        if memo is None: memo = {}
        key = id(self)
        if key in memo: return memo[key]
        k = self.k
        if k == 'const': r = self.a[0]
        elif k == 'gt0': r = alg.evalf(self.a[0], env) > 0
        elif k == 'ge0': r = alg.evalf(self.a[0], env) >= 0
        elif k == 'eq0': r = alg.evalf(self.a[0], env) == 0
        elif k == 'ne0': r = alg.evalf(self.a[0], env) != 0
        elif k == 'not': r = not self.a[0].eval(env, memo)
        elif k == 'and': r = self.a[0].eval(env, memo) and self.a[1].eval(env, memo)
        elif k == 'or': r = self.a[0].eval(env, memo) or self.a[1].eval(env, memo)
        elif k == 'var': r = bool(env['__bool__'][self.a[0]])
        elif k == 'truthy': r = alg.evalf(self.a[0], env) != 0
        else: raise ValueError(k)
        memo[key] = r
        return r

    def atoms(self, memo=None):
        if memo is None: memo = {}
        if id(self) in memo: return memo[id(self)]
        s = set()
        for x in self.a:
            if isinstance(x, B): s |= x.atoms(memo)
            elif isinstance(x, Rat): s |= x.atoms()
        memo[id(self)] = s
        return s


_SK = {}


def skey(b, memo=None):
    """interned structural key of a boolean formula: linear in the size of the DAG"""
    if memo is None: memo = {}
    if isinstance(b, B):
        i = id(b)
        if i in memo: return memo[i]
        key = (b.k,) + tuple(skey(x, memo) for x in b.a)
        r = ('b', _SK.setdefault(key, len(_SK)))
        memo[i] = r
        return r
    if isinstance(b, Rat):
        return ('rat', frozenset(b.num.t.items()), frozenset(b.den.t.items()))
    return b


def lt(a, b): return B.cmp('gt0', b - a)
def le(a, b): return B.cmp('ge0', b - a)
def gt(a, b): return B.cmp('gt0', a - b)
def ge(a, b): return B.cmp('ge0', a - b)
def eq(a, b): return B.cmp('eq0', a - b)
def ne(a, b): return B.cmp('ne0', a - b)


def as_bool(x):
    if isinstance(x, B): return x
    if x.is_const(): return B.const(x.const_value() != 0)
    return B('truthy', x)


def as_rat(x):
    if isinstance(x, Rat): return x
    if x.k == 'const': return C(1 if x.a[0] else 0)
    raise TypeError('boolean formula used as a number: %s' % x)


# ------------------------------------------------------------------ numeric helpers
def float_bits_to_fraction(bits, width):
    if width == 32:
        v = struct.unpack('<f', struct.pack('<I', bits))[0]
    else:
        v = struct.unpack('<d', struct.pack('<Q', bits))[0]
    if v != v: return None
    if v in (float('inf'), float('-inf')): return None
    return Fraction(v)


def f32_exact(fr):
    try:
        v = float(fr)
        return Fraction(struct.unpack('<f', struct.pack('<f', v))[0]) == fr
    except (OverflowError, struct.error):
        return False


FLOAT_TYS = ('f32', 'f64')
INT_TYS = ('i8', 'i16', 'i32', 'i64', 'i128', 'isize', 'u8', 'u16', 'u32', 'u64', 'u128', 'usize')


def _commut(name, a, b):
    # canonical argument order for commutative uninterpreted functions
    if str(a) <= str(b): return fn(name, a, b)
    return fn(name, b, a)


def minmax(name, a, b):
    """min/max as an associative-commutative-idempotent uninterpreted function: nested applications are flattened"""
    if a == b: return a
    if a.is_const() and b.is_const():
        return C(min(a.const_value(), b.const_value()) if name == 'min' else max(a.const_value(), b.const_value()))
    args = []
    for x in (a, b):
        at = None
        if x.is_poly() and len(x.num.t) == 1:
            (m, c), = x.num.t.items()
            if c == 1 and len(m) == 1 and m[0][1] == 1: at = alg._ATOMS[m[0][0]]
        if at is not None and at[0] == 'fn' and at[1] == name: args.extend(at[2])
        else: args.append(x)
    uniq = []
    for x in args:
        if not any(x == y for y in uniq): uniq.append(x)
    uniq.sort(key=str)
    return fn(name, *uniq)


def fabs(a):
    if a.is_const(): return C(abs(a.const_value()))
    # abs(-x) = abs(x): pick a sign-canonical argument
    _, lc = a.num.lead()
    if lc < 0: a = -a
    return fn('abs', a)


def int_pow(x, n):
    r = C(1)
    for _ in range(abs(n)): r = r * x
    return r if n >= 0 else r.inv()


# numeric meaning of fn atoms for order-type / grid evaluation
def num_fn(name, vals):
    from math import floor, ceil
    if name == 'min': return min(vals)
    if name == 'max': return max(vals)
    if name == 'abs': return abs(vals[0])
    if name == 'floor': return Fraction(floor(vals[0]))
    if name == 'ceil': return Fraction(ceil(vals[0]))
    if name == 'idiv':
        q = abs(vals[0]) // abs(vals[1])
        return Fraction(q if (vals[0] >= 0) == (vals[1] >= 0) else -q)
    if name == 'irem':
        q = abs(vals[0]) // abs(vals[1])
        q = q if (vals[0] >= 0) == (vals[1] >= 0) else -q
        return vals[0] - q * vals[1]
    if name.startswith('tofloat') or name.startswith('fcast'): return vals[0]
    import re
    mm = re.match(r'^(?:(\w+)::)?(?:(\w+)::)?(saturating|wrapping)_(add|sub|mul)<(\w*)>$', name)
    if mm and len(vals) == 2:
        ty = next((t for t in (mm.group(5), mm.group(1), mm.group(2)) if t in INT_TYS), None)
        if ty is not None:
            bits = {'i8': 8, 'u8': 8, 'i16': 16, 'u16': 16, 'i32': 32, 'u32': 32, 'i64': 64, 'u64': 64, 'i128': 128, 'u128': 128, 'isize': 64, 'usize': 64}[ty]
            lo, hi = (-(1 << (bits - 1)), (1 << (bits - 1)) - 1) if ty.startswith('i') else (0, (1 << bits) - 1)
            r = {'add': vals[0] + vals[1], 'sub': vals[0] - vals[1], 'mul': vals[0] * vals[1]}[mm.group(4)]
            if mm.group(3) == 'saturating': return Fraction(min(max(r, lo), hi))
            if r.denominator == 1:
                return Fraction((int(r) - lo) % (1 << bits) + lo)
    raise KeyError('no numeric meaning for ' + name)


# ------------------------------------------------------------------ term table -> values
class Sem:
    def __init__(self, terms):
        self.terms = terms
        self.memo = {}

    def val(self, tid):
        if tid in self.memo: return self.memo[tid]
        # iterative post-order to avoid deep recursion
        stack = [tid]
        while stack:
            t = stack[-1]
            if t in self.memo:
                stack.pop(); continue
            term = self.terms[t]
            if term[0] == 'op':
                pending = [a for a in term[2] if a not in self.memo]
                if pending:
                    stack.extend(pending); continue
                self.memo[t] = self.op(term[1], [self.memo[a] for a in term[2]])
            elif term[0] == 'in':
                name, ty = term[1], term[2]
                self.memo[t] = B('var', name) if ty == 'bool' else alg.sym(name)
            elif term[0] == 'ci':
                v, ty = int(term[1]), term[2]
                self.memo[t] = B.const(v != 0) if ty == 'bool' else C(v)
            elif term[0] == 'cf':
                fr = float_bits_to_fraction(int(term[1], 16), term[2])
                self.memo[t] = C(fr) if fr is not None else named('nonfinite:%s' % term[1])
            stack.pop()
        return self.memo[tid]

    # -------------------------------------------------------------- operator meanings
    def op(self, name, a):
        R = as_rat
        if name.startswith('ext:') or name.startswith('optcast:ext:') or name.startswith('optcast:'):
            return self.ext(name, a)
        if name.startswith('prim:'):
            return self.method(name[5:].split('::')[-1], name[5:].split('::')[0], a, name)
        base, _, ty = name.partition(':')
        if base in ('add', 'sub', 'mul', 'div', 'rem', 'neg', 'shl', 'shr', 'bitand', 'bitor', 'bitxor', 'bitnot') and not name.startswith('cast'):
            return self.arith(base, ty, a)
        if base in ('lt', 'le', 'gt', 'ge', 'eq', 'ne'):
            if isinstance(a[0], B) or isinstance(a[1], B):
                x, y = as_bool(a[0]), as_bool(a[1])
                same = x.and_(y).or_(x.neg().and_(y.neg()))
                if base == 'eq': return same
                if base == 'ne': return same.neg()
            return {'lt': lt, 'le': le, 'gt': gt, 'ge': ge, 'eq': eq, 'ne': ne}[base](R(a[0]), R(a[1]))
        if base == 'not': return as_bool(a[0]).neg()
        if base == 'and': return as_bool(a[0]).and_(as_bool(a[1]))
        if base == 'or': return as_bool(a[0]).or_(as_bool(a[1]))
        if base == 'cast':
            _, frm, to = name.split(':')
            return self.cast(frm, to, a[0])
        if base == 'ovf':
            return B('truthy', fn(name, *[R(x) for x in a]))
        if base in ('discr', 'field', 'variant', 'ret'):
            inner = a[0]
            # projections of known tuple-returning functions
            if base == 'ret' and isinstance(inner, Rat):
                at = self._single_atom(inner)
                if at is not None and at[1] == 'sin_cos':
                    return fn('sin' if ty == '0' else 'cos', *at[2])
                if at is not None and '::overflowing_' in at[1] and ty == '0' and at[1].split('::')[0] in INT_TYS:
                    # value part of an inherent overflowing_* operation of a primitive: ideal integer arithmetic
                    opn = at[1].split('::overflowing_')[1].split('<')[0]
                    if opn in ('add', 'sub', 'mul', 'div', 'rem', 'neg'):
                        return self.arith(opn, at[1].split('::')[0], list(at[2]))
            return fn(name, R(inner) if isinstance(inner, Rat) else C(0))
        if base == 'call' or base == 'fn' or base == 'str' or base == 'cmp3':
            return fn(name, *[R(x) if isinstance(x, Rat) else self._b2r(x) for x in a])
        return fn('?' + name, *[R(x) if isinstance(x, Rat) else self._b2r(x) for x in a])

    def _b2r(self, b):
        if b.k == 'const': return C(1 if b.a[0] else 0)
        return fn('bool:' + str(b))

    def _single_atom(self, r):
        if r.is_poly() and len(r.num.t) == 1:
            (m, c), = r.num.t.items()
            if c == 1 and len(m) == 1 and m[0][1] == 1:
                return alg._ATOMS[m[0][0]]
        return None

    def arith(self, base, ty, a):
        R = as_rat
        is_int = ty in INT_TYS
        if base == 'add': return R(a[0]) + R(a[1])
        if base == 'sub': return R(a[0]) - R(a[1])
        if base == 'mul': return R(a[0]) * R(a[1])
        if base == 'neg': return -R(a[0])
        if base == 'div':
            x, y = R(a[0]), R(a[1])
            if is_int:
                if x.is_const() and y.is_const() and y.const_value() != 0:
                    return C(sem_num('idiv', [x.const_value(), y.const_value()]))
                return fn('idiv', x, y)
            if y.is_zero(): return fn('div0', x)
            return x / y
        if base == 'rem':
            x, y = R(a[0]), R(a[1])
            if x.is_const() and y.is_const() and y.const_value() != 0 and is_int:
                return C(sem_num('irem', [x.const_value(), y.const_value()]))
            return fn('irem' if is_int else 'frem', x, y)
        if base in ('bitand', 'bitor', 'bitxor'):
            if all(isinstance(x, B) for x in a):
                if base == 'bitand': return a[0].and_(a[1])
                if base == 'bitor': return a[0].or_(a[1])
                return a[0].and_(a[1].neg()).or_(a[0].neg().and_(a[1]))
            x, y = (R(v) if isinstance(v, Rat) else self._b2r(v) for v in a)
            if x.is_const() and y.is_const():
                i, j = int(x.const_value()), int(y.const_value())
                return C({'bitand': i & j, 'bitor': i | j, 'bitxor': i ^ j}[base])
            return _commut(base, x, y)
        if base == 'bitnot':
            if isinstance(a[0], B): return a[0].neg()
            return fn('bitnot', R(a[0]))
        if base in ('shl', 'shr'):
            return fn(base, R(a[0]), R(a[1]))
        raise ValueError(base)

    def cast(self, frm, to, x):
        if isinstance(x, B):
            if to in INT_TYS or to in FLOAT_TYS:
                if x.k == 'const': return C(1 if x.a[0] else 0)
                return fn('bool2int', self._b2r(x))
            return x
        if frm in INT_TYS + ('bool', 'char') and to in FLOAT_TYS:
            if x.is_const(): return x
            return fn('tofloat', x)
        if frm in FLOAT_TYS and to in INT_TYS:
            if x.is_const():
                v = x.const_value()
                from math import trunc
                return C(trunc(v))
            return fn('toint:' + to, x)
        if frm in FLOAT_TYS and to in FLOAT_TYS:
            if frm == to or to == 'f64': return x
            if x.is_const() and f32_exact(x.const_value()): return x
            return fn('fcast:' + to, x)
        if frm in INT_TYS + ('bool', 'char') and to in INT_TYS + ('char',):
            if x.is_const(): return x  # driver already normalised concrete ints
            if frm == to: return x
            return fn('icast:%s:%s' % (frm, to), x)
        return fn('cast:%s:%s' % (frm, to), x)

    def ext(self, name, a):
        # ext:<crate>:<Trait>::<method><T,...>   or  optcast:<crate>:...
        body = name.split(':', 1)[1]
        if body.startswith('ext:'): body = body[4:]
        krate, rest = body.split(':', 1)
        path, _, targs = rest.partition('<')
        targs = targs.rstrip('>').split(',') if targs else []
        trait, _, method = path.partition('::')
        selfty = targs[0] if targs else ''
        if name.startswith('optcast:'):
            # NumCast::from<Target, Source> / to_xxx / from_xxx on a constant
            if trait == 'NumCast':
                frm = targs[1] if len(targs) > 1 else ''
                return self.cast(frm, selfty, a[0])
            if trait == 'ToPrimitive':
                return self.cast(selfty, method[3:], a[0])
            if trait == 'FromPrimitive':
                return self.cast(method[5:], selfty, a[0])
        return self.method(method, selfty, a, name, trait)

    def method(self, m, ty, a, full, trait=''):
        R = as_rat
        is_int = ty in INT_TYS
        ar = lambda base: self.arith(base, ty if is_int else '', a)
        if m in ('add', 'sub', 'mul', 'div', 'rem', 'neg', 'bitand', 'bitor', 'bitxor', 'shl', 'shr') and trait not in ('Real', 'Float'):
            return ar(m)
        if trait == '' and m in ('wrapping_add', 'wrapping_sub', 'wrapping_mul', 'wrapping_neg', 'wrapping_div', 'wrapping_rem'):
            # inherent wrapping arithmetic of primitives (used by core::num::Wrapping<T>): read in ideal integer arithmetic
            return self.arith(m[len('wrapping_'):], ty, a)
        if m == 'not': return a[0].neg() if isinstance(a[0], B) else fn('bitnot', R(a[0]))
        if m in ('lt', 'le', 'gt', 'ge', 'eq', 'ne'):
            return self.op(m, a)
        if m == 'zero' and not a: return C(0)
        if m == 'one' and not a: return C(1)
        if m == 'is_zero': return eq(R(a[0]), C(0))
        if m == 'is_one': return eq(R(a[0]), C(1))
        if m == 'mul_add': return R(a[0]) * R(a[1]) + R(a[2])
        if m == 'sqrt': return sqrt(R(a[0]))
        if m == 'recip' or (m == 'inv' and trait == 'Inv'): return C(1) / R(a[0])
        if m == 'abs': return fabs(R(a[0]))
        if m in ('max', 'min') and len(a) == 2: return minmax(m, R(a[0]), R(a[1]))
        if m in ('sin', 'cos', 'acos', 'asin', 'atan', 'exp', 'ln', 'floor', 'ceil', 'round', 'trunc', 'fract', 'signum', 'sin_cos', 'to_degrees', 'to_radians', 'cbrt'):
            x = R(a[0])
            if m == 'sin' and x.is_zero(): return C(0)
            if m == 'cos' and x.is_zero(): return C(1)
            if m in ('floor', 'ceil', 'round', 'trunc') and x.is_const():
                from math import floor, ceil, trunc
                v = x.const_value()
                if m == 'round':
                    r = floor(abs(v) + Fraction(1, 2)); return C(r if v >= 0 else -r)
                return C({'floor': floor, 'ceil': ceil, 'trunc': trunc}[m](v))
            if m == 'to_radians': return x * named('pi') / C(180)
            if m == 'to_degrees': return x * C(180) / named('pi')
            return fn(m, x)
        if m == 'tan':
            x = R(a[0])
            return fn('sin', x) / fn('cos', x)
        if m == 'atan2': return fn('atan2', R(a[0]), R(a[1]))
        if m == 'powi':
            n = R(a[1])
            if n.is_const(): return int_pow(R(a[0]), int(n.const_value()))
            return fn('powi', R(a[0]), n)
        if m == 'powf' or m == 'pow': return fn('pow', R(a[0]), R(a[1]))
        if m in ('epsilon', 'default_epsilon') and not a: return named('eps:' + ty)
        if m == 'default_max_relative' and not a: return named('eps:' + ty)
        if m == 'default_max_ulps' and not a: return named('max_ulps')
        if m == 'PI' and not a: return named('pi')
        if m == 'TAU' and not a: return C(2) * named('pi')
        if m == 'FRAC_PI_2' and not a: return named('pi') / C(2)
        if m in ('min_value', 'max_value', 'infinity', 'neg_infinity', 'nan') and not a: return named('%s:%s' % (m, ty))
        if m in ('is_negative', 'is_sign_negative'): return lt(R(a[0]), C(0))
        if m in ('is_positive', 'is_sign_positive'): return gt(R(a[0]), C(0)) if m == 'is_positive' else ge(R(a[0]), C(0))
        if m in ('abs_diff_eq', 'relative_eq', 'ulps_eq', 'abs_diff_ne', 'relative_ne', 'ulps_ne', 'is_nan', 'is_finite', 'is_infinite'):
            b = B('truthy', fn('approx:' + m.replace('_ne', '_eq'), *[R(x) if isinstance(x, Rat) else self._b2r(x) for x in a]))
            return b.neg() if m.endswith('_ne') else b
        if m == 'clone' or m == 'as_' and trait == 'AsPrimitive' and False:
            return a[0]
        if m == 'as_' and trait == 'AsPrimitive':
            # AsPrimitive<U>::as_ : targs = [Self, U] (kept in the name)
            tys = full.partition('<')[2].rstrip('>').split(',')
            return self.cast(tys[0], tys[1] if len(tys) > 1 else '?', a[0])
        if m == 'from' and trait == 'NumCast':
            tys = full.partition('<')[2].rstrip('>').split(',')
            return fn('numcast:%s' % tys[0], R(a[0]))
        # everything else: an uninterpreted function of its arguments, named by method and Self type
        args = [R(x) if isinstance(x, Rat) else self._b2r(x) for x in a]
        if krate_of(full) == 'az':
            # az::*Cast<Dst>: the destination type is part of the scalar rule
            return fn('%s::%s<%s>' % (trait, m, full.partition('<')[2].rstrip('>')), *args)
        return fn('%s::%s<%s>' % (trait or 'prim', m, ty), *args)

    # -------------------------------------------------------------- path conditions
    def cond(self, tid, value):
        """meaning of a recorded branch decision (term, value); value<0 encodes 'not equal to -1-value'"""
        v = self.val(tid)
        value = int(value)
        if isinstance(v, B):
            if value >= 0: return v if value != 0 else v.neg()
            return v if (-1 - value) == 0 else v.neg()
        at = self._single_atom(v) if isinstance(v, Rat) else None
        if at is not None and at[0] == 'fn' and at[1] == 'discr':
            # discriminant of a two-variant enum (Option / Result): a boolean "is variant 1"
            is1 = B('truthy', v)
            if value in (0, 1): return is1 if value == 1 else is1.neg()
            if (-1 - value) in (0, 1): return is1.neg() if (-1 - value) == 1 else is1
        if value >= 0: return eq(v, C(value))
        return ne(v, C(-1 - value))


def krate_of(full):
    b = full.split(':', 1)[1] if ':' in full else ''
    if b.startswith('ext:'): b = b[4:]
    return b.split(':', 1)[0]


def sem_num(name, vals): return num_fn(name, vals)
