"""Shared rule helpers for the specs."""
from .alg import C, sym, fn
from .sem import B, eq, as_bool
from .run import Enum


def conj_leaves(b, op='and'):
    if isinstance(b, B) and b.k == op: return conj_leaves(b.a[0], op) + conj_leaves(b.a[1], op)
    return [b]


def truth(v):
    """True / False / symbolic B for a returned bool"""
    if isinstance(v, B):
        if v.k == 'const': return v.a[0]
        return v
    if v.is_const(): return v.const_value() != 0
    return as_bool(v)


def all_or_none(ctx, key, res, preds, rule, where, true_of=lambda p: None):
    """paths of a boolean/Option-valued lift: 'success' exactly when every predicate holds.
    preds: list of B; true_of(path) -> True (all hold) / False (some fails) / B (symbolic: both continuations)"""
    ok_paths = 0
    cases = []
    for k, p in enumerate(res.paths):
        if p.out != 'ret':
            ctx.ob('%s/path%d' % (key, k), False, rule, where, 'returns', p.out + ' ' + str(p.panic)); continue
        conds = []
        for c in p.conds: conds.extend(conj_leaves(c))
        good = true_of(p)
        if isinstance(good, B):
            cases.append((conds + conj_leaves(good), True, '%da' % k))
            # the failing continuation: a disjunction of negated leaves; one case per negated leaf
            for j, leaf in enumerate(conj_leaves(good)):
                cases.append((conds + [leaf.neg()], False, '%db%d' % (k, j)))
        else:
            cases.append((conds, bool(good), str(k)))
    for conds, good, k in cases:
        if good:
            ok_paths += 1
            missing = [str(q) for q in preds if not any(q == c for c in conds)]
            ctx.ob('%s/success-needs-all' % key, not missing, rule, where, 'every element predicate on the success path', 'missing: %s' % missing[:3])
        else:
            negs = [q.neg() for q in preds]
            hit = any(any(nq == c for c in conds) for nq in negs)
            ctx.ob('%s/failure-needs-one/%s' % (key, k), hit, rule, where, 'some element predicate false on this failing path', [str(c) for c in conds][:4])
        foreign = [str(c) for c in conds if not any(c == q or c == q.neg() for q in preds)]
        ctx.ob('%s/only-element-predicates/%s' % (key, k), not foreign, rule, where, 'conditions are element predicates only', foreign[:3])
    ctx.ob('%s/one-success-path' % key, ok_paths == 1, rule, where, 1, ok_paths)


def opt_pred(r): return as_bool(fn('discr', r))


def opt_payload(r): return fn('field:0', fn('variant:1', r))




def neg_truth(v):
    t = truth(v)
    if isinstance(t, B): return t.neg()
    return not t


# ------------------------------------------------------------------ feasibility of paths w.r.t. known constants
def const_env():
    """numeric values of the named constants (machine epsilons, pi): used only to discard branch outcomes that contradict them"""
    from fractions import Fraction
    import math
    from . import alg
    env = {}
    for name, val in (('eps:f32', Fraction(1, 2 ** 23)), ('eps:f64', Fraction(1, 2 ** 52)), ('pi', Fraction(math.pi))):
        k = ('const', name)
        if k in alg._ATOM_IDX: env[alg._ATOM_IDX[k]] = val
    return env


def cond_leaves(p):
    out = []
    for c in p.conds: out.extend(conj_leaves(c))
    return out


def feasible(p, env=None):
    """False when some branch condition of the path mentions only named constants and is false for their values"""
    from . import alg
    env = env if env is not None else const_env()
    for c in cond_leaves(p):
        if isinstance(c, B) and c.k == 'const' and not c.a[0]: return False
        if not isinstance(c, B) or c.k not in ('gt0', 'ge0', 'eq0', 'ne0'): continue
        at = c.atoms()
        if at and all(a in env for a in at):
            if not c.eval(env): return False
    return True


def feasible_paths(res):
    env = const_env()
    return [p for p in res.paths if feasible(p, env)]


def nonconst_conds(p):
    """branch conditions of a path without those decided by named constants alone"""
    env = const_env()
    out = []
    for c in cond_leaves(p):
        if isinstance(c, B) and c.k == 'const': continue
        at = c.atoms() if isinstance(c, B) else set()
        if at and all(a in env for a in at): continue
        out.append(c)
    return out
