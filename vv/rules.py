"""Shared rule helpers for the specs."""
from .alg import C, sym, fn
from .sem import B, eq, as_bool
from .run import Enum


def conj_leaves(b, op='and'):
    if isinstance(b, B) and b.k == op: return conj_leaves(b.a[0], op) + conj_leaves(b.a[1], op)
    return [b]


def truth(v):
    """True / False / symbolic B for a returned bool"""
    if isinstance(v, B):
        if v.k == 'const': return v.a[0]
        return v
    if v.is_const(): return v.const_value() != 0
    return as_bool(v)


def all_or_none(ctx, key, res, preds, rule, where, true_of=lambda p: None):
    """paths of a boolean/Option-valued lift: 'success' exactly when every predicate holds.
    preds: list of B; true_of(path) -> True (all hold) / False (some fails) / B (symbolic: both continuations)"""
    ok_paths = 0
    cases = []
    for k, p in enumerate(res.paths):
        if p.out != 'ret':
            ctx.ob('%s/path%d' % (key, k), False, rule, where, 'returns', p.out + ' ' + str(p.panic)); continue
        conds = []
        for c in p.conds: conds.extend(conj_leaves(c))
        good = true_of(p)
        if isinstance(good, B):
            cases.append((conds + conj_leaves(good), True, '%da' % k))
            # the failing continuation: a disjunction of negated leaves; one case per negated leaf
            for j, leaf in enumerate(conj_leaves(good)):
                cases.append((conds + [leaf.neg()], False, '%db%d' % (k, j)))
        else:
            cases.append((conds, bool(good), str(k)))
    from .ordeval import bkey
    pk = [bkey(q) for q in preds]; nk = [bkey(q.neg()) for q in preds]
    pset = set(pk); nset = set(nk); both = pset | nset
    for conds, good, k in cases:
        ck = [bkey(c) for c in conds]; cset = set(ck)
        if good:
            ok_paths += 1
            missing = [str(q) for q, qk in zip(preds, pk) if qk not in cset]
            ctx.ob('%s/success-needs-all' % key, not missing, rule, where, 'every element predicate on the success path', 'missing: %s' % missing[:3])
        else:
            hit = bool(cset & nset)
            ctx.ob('%s/failure-needs-one/%s' % (key, k), hit, rule, where, 'some element predicate false on this failing path', [str(c) for c in conds][:4])
        foreign = [str(c) for c, k2 in zip(conds, ck) if k2 not in both]
        ctx.ob('%s/only-element-predicates/%s' % (key, k), not foreign, rule, where, 'conditions are element predicates only', foreign[:3])
    ctx.ob('%s/one-success-path' % key, ok_paths == 1, rule, where, 1, ok_paths)


def opt_pred(r): return as_bool(fn('discr', r))


def opt_payload(r): return fn('field:0', fn('variant:1', r))




def neg_truth(v):
    t = truth(v)
    if isinstance(t, B): return t.neg()
    return not t


# ------------------------------------------------------------------ feasibility of paths w.r.t. known constants
def const_env():
    """numeric values of the named constants (machine epsilons, pi): used only to discard branch outcomes that contradict them"""
    from fractions import Fraction
    import math
    from . import alg
    env = {}
    for name, val in (('eps:f32', Fraction(1, 2 ** 23)), ('eps:f64', Fraction(1, 2 ** 52)), ('pi', Fraction(math.pi))):
        k = ('const', name)
        if k in alg._ATOM_IDX: env[alg._ATOM_IDX[k]] = val
    return env


def cond_leaves(p):
    out = []
    for c in p.conds: out.extend(conj_leaves(c))
    return out


def feasible(p, env=None):
    """False when some branch condition of the path mentions only named constants and is false for their values"""
    from . import alg
    env = env if env is not None else const_env()
    for c in cond_leaves(p):
        if isinstance(c, B) and c.k == 'const' and not c.a[0]: return False
        if not isinstance(c, B) or c.k not in ('gt0', 'ge0', 'eq0', 'ne0'): continue
        at = c.atoms()
        if at and all(a in env for a in at):
            if not c.eval(env): return False
    return True


def feasible_paths(res):
    env = const_env()
    return [p for p in res.paths if feasible(p, env)]


def nonconst_conds(p):
    """branch conditions of a path without those decided by named constants alone"""
    env = const_env()
    out = []
    for c in cond_leaves(p):
        if isinstance(c, B) and c.k == 'const': continue
        at = c.atoms() if isinstance(c, B) else set()
        if at and all(a in env for a in at): continue
        out.append(c)
    return out


# ------------------------------------------------------------------ clamp regions: branch-style and min/max-style clamps treated alike
def _witnesses(lo, hi):
    from fractions import Fraction
    lo = Fraction(lo); hi = Fraction(hi); d = hi - lo
    return [('below', [lo - 2 * d, lo - d / 3]), ('at-lo', [lo]), ('inside', [lo + d / 4, lo + 2 * d / 3]), ('at-hi', [hi]), ('above', [hi + d, hi + 5 * d / 2])]


def resolve_minmax(r, env):
    """replace every min/max atom of r whose arguments are numerically determined by env (atom id -> value) by the argument that attains it;
    other function atoms are rebuilt around resolved arguments. Valid on the whole order region the witness env stands for."""
    from . import alg
    from .alg import Rat, C, fn
    if not isinstance(r, Rat): return r
    mp = {}
    for a in r.atoms():
        kind, name, args = alg._ATOMS[a]
        if kind != 'fn' or not args: continue
        nargs = [resolve_minmax(x, env) for x in args]
        if name in ('min', 'max'):
            vals = []
            for x in nargs:
                try: vals.append(alg.evalf(x, dict(env, __fn__=None)))
                except Exception: vals = None; break
            if vals is not None:
                pick = vals.index(min(vals) if name == 'min' else max(vals))
                mp[a] = nargs[pick]; continue
        if any(not (x == y) for x, y in zip(nargs, args)):
            if name == 'sqrt' and len(nargs) == 1: mp[a] = alg.sqrt(nargs[0])
            elif name == 'sin' and len(nargs) == 1 and nargs[0].is_zero(): mp[a] = C(0)
            elif name == 'cos' and len(nargs) == 1 and nargs[0].is_zero(): mp[a] = C(1)
            else: mp[a] = fn(name, *nargs)
    return r.subs(mp) if mp else r


def _cmp_with_bounds(c, a, lo, hi):
    """c is (a boolean combination of) comparisons  +-(a - k) {>, >=, ==, !=} 0  with k in {lo, hi}"""
    from fractions import Fraction
    if c.k in ('and', 'or'): return _cmp_with_bounds(c.a[0], a, lo, hi) and _cmp_with_bounds(c.a[1], a, lo, hi)
    if c.k == 'not': return _cmp_with_bounds(c.a[0], a, lo, hi)
    if c.k not in ('gt0', 'ge0', 'eq0', 'ne0'): return False
    r = c.a[0]
    if not r.is_poly(): return False
    co = None; k0 = Fraction(0)
    for mono, cf in r.num.t.items():
        if mono == (): k0 += cf
        elif len(mono) == 1 and mono[0] == (a, 1) and co is None: co = cf
        else: return False
    if co is None or co == 0: return False
    root = -k0 / co / (r.den.const_value() if r.den.is_const() else 1) * (r.den.const_value() if r.den.is_const() else 1)
    return root == Fraction(lo) or root == Fraction(hi)


def region_views(p, fac, lo=0, hi=1):
    """views of a path over the order regions of the quantity `fac` relative to the constants lo < hi:
    list of (region, g, fix) where g is the clamped value of fac on that region (C(lo) | fac | C(hi)) and fix(x) rewrites a result
    expression for that region (min/max atoms resolved; at the two boundary points fac is substituted). None when a condition of the
    path splits a region (it is not a comparison of fac with lo/hi)."""
    from .alg import C
    from .ordeval import CB
    at = fac.atoms()
    if len(at) != 1: return None
    (a,) = at
    conds = [c for c in cond_leaves(p) if isinstance(c, B) and c.k != 'const' and c.atoms() <= {a}]
    # soundness of the witness evaluation below: a condition on the quantity must be a comparison of the quantity itself with lo or hi
    # (a threshold elsewhere, say fac > 0.9, could fall between two witnesses of a region and go unnoticed)
    if not all(_cmp_with_bounds(c, a, lo, hi) for c in conds): return None
    out = []
    for reg, ws in _witnesses(lo, hi):
        oks = []
        for wv in ws:
            env = {a: wv, '__fn__': None}
            try: oks.append(all(CB(c).ev(env) for c in conds))
            except Exception: return None
        if all(oks):
            w0 = ws[0]
            g = C(lo) if reg in ('below', 'at-lo') else C(hi) if reg in ('above', 'at-hi') else fac

            def fix(x, w0=w0, reg=reg):
                y = resolve_minmax(x, {a: w0})
                if reg in ('at-lo', 'at-hi') and hasattr(y, 'subs_deep'): y = y.subs_deep({a: C(w0)})
                return y
            out.append((reg, g, fix))
        elif any(oks): return None
    return out


class ViewPath:
    """a path restricted to one order region of a clamped quantity (see region_views): results and event terms are rewritten for the region"""
    def __init__(self, p, reg, g, fix):
        self.p = p; self.reg = reg; self.g = g; self.fix = fix
        self.out = p.out; self.panic = p.panic; self.conds = p.conds; self.raw_conds = p.raw_conds; self.events = p.events; self.d = p.d

    def _map(self, v):
        from .run import Enum, Ptr
        from .alg import Rat
        if isinstance(v, list): return [self._map(x) for x in v]
        if isinstance(v, Enum): return Enum(v.var, [self._map(x) for x in v.fields])
        if isinstance(v, Rat): return self.fix(v)
        return v

    @property
    def ret(self): return self._map(self.p.ret)

    def term(self, tid): return self._map(self.p.term(tid))

    def ev(self, kind): return self.p.ev(kind)

    def mut(self, name): return self._map(self.p.mut(name))


def view_paths(res, fac, clamped, lo=0, hi=1):
    """feasible paths, split into region views when the quantity `fac` is clamped to [lo, hi]; yields (label, ViewPath | None)"""
    out = []
    for i, p in enumerate(feasible_paths(res)):
        if not clamped or p.out != 'ret':
            out.append(('path%d' % i, ViewPath(p, 'any', fac, lambda x: x))); continue
        views = region_views(p, fac, lo, hi)
        if not views:
            out.append(('path%d' % i, None)); continue
        for reg, g, fix in views: out.append(('path%d/%s' % (i, reg), ViewPath(p, reg, g, fix)))
    return out


# ------------------------------------------------------------------ order-invariance (soundness condition of the order-type rules)
def cmp_of_atoms(r, leaf_only=False):
    """r is x - y, x - c or c - x for atoms x, y (input leaves; with leaf_only=False also uninterpreted atoms such as summarised calls) and a constant c:
    what a comparison of two such operands normalises to"""
    from .alg import Rat, _ATOMS
    if not isinstance(r, Rat) or not r.is_poly(): return False
    pos = neg = 0
    for mono, c in r.num.t.items():
        if mono == (): continue
        if len(mono) != 1 or mono[0][1] != 1: return False
        if leaf_only and _ATOMS[mono[0][0]][0] == 'fn': return False
        if c == 1: pos += 1
        elif c == -1: neg += 1
        else: return False
    return pos <= 1 and neg <= 1 and pos + neg >= 1


def pure_comparison(c, leaf_only=False):
    """a path condition that only compares two quantities (or a quantity with a constant), or tests a discriminant / boolean"""
    from .sem import B
    if not isinstance(c, B): return False
    if c.k in ('const', 'var', 'truthy'): return True
    if c.k in ('gt0', 'ge0', 'eq0', 'ne0'): return cmp_of_atoms(c.a[0], leaf_only)
    if c.k in ('and', 'or'): return pure_comparison(c.a[0], leaf_only) and pure_comparison(c.a[1], leaf_only)
    if c.k == 'not': return pure_comparison(c.a[0], leaf_only)
    return False
