"""C17 — clamp, range test, wrap, ping-pong and angle difference obey their range laws."""
import itertools
from fractions import Fraction
from math import floor
from ..run import Root, leaves, Ptr, Enum
from ..alg import C, sym, fn, Rat, named, atom_const
from ..sem import B, minmax, lt, le, gt, ge, fabs
from ..shapes import *
from ..rules import cond_leaves, const_env
from ..ordeval import CompiledRoot, wo, mkenv, value
from .. import alg

ID = 'C17'
SINTS = ['i8', 'i16', 'i32', 'i64', 'isize']
UINTS = ['u8', 'u16', 'u32', 'u64', 'usize']
FLOATS = ['f32', 'f64']


def all_types():
    out = []
    for t in FLOATS: out.append((t, t, 'float'))
    for t in SINTS: out.append((t, t, 'sint'))
    for t in UINTS: out.append((t, t, 'uint'))
    for t in SINTS: out.append(('W' + t, 'core::num::Wrapping<%s>' % t, 'sint'))
    for t in UINTS: out.append(('W' + t, 'core::num::Wrapping<%s>' % t, 'uint'))
    return out


def leaf(tag, i): return ('a%d.0' % i) if tag.startswith('W') else ('a%d' % i)


def build_roots(kinds):
    roots = []; meta = {}

    def add(name, code, max_paths=400, opaque=(), **m):
        roots.append(Root(name, code, max_paths=max_paths, opaque=opaque)); meta[name] = m

    for tag, T, cls in all_types():
        add('r_clamped_' + tag, 'pub fn r_clamped_%s(x: %s, lo: %s, hi: %s) -> %s { x.clamped(lo, hi) }' % (tag, T, T, T, T), kind='clamped', tag=tag, cls=cls)
        add('r_isb_' + tag, 'pub fn r_isb_%s(x: %s, lo: %s, hi: %s) -> bool { x.is_between(lo, hi) }' % (tag, T, T, T), kind='isb', tag=tag, cls=cls)
        add('r_idem_' + tag, 'pub fn r_idem_%s(x: %s, lo: %s, hi: %s) -> %s { x.clamped(lo, hi).clamped(lo, hi) }' % (tag, T, T, T, T), kind='clamped', tag=tag, cls=cls, idem=True)
        add('r_agree_' + tag, 'pub fn r_agree_%s(x: %s, lo: %s, hi: %s) -> (bool, bool) { (x.clamped(lo, hi) == x, x.is_between(lo, hi)) }' % (tag, T, T, T), kind='agree', tag=tag, cls=cls)
        add('r_clampfn_' + tag, 'pub fn r_clampfn_%s(x: %s, lo: %s, hi: %s) -> %s { Clamp::clamp(x, lo, hi) }' % (tag, T, T, T, T), kind='clamped', tag=tag, cls=cls)
        add('r_clamprange_' + tag, 'pub fn r_clamprange_%s(x: %s, lo: %s, hi: %s) -> (%s, %s, bool) { (x.clamped_to_inclusive_range(lo..=hi), Clamp::clamp_to_inclusive_range(x, lo..=hi), x.is_between_inclusive_range_bounds(lo..=hi)) }' % (tag, T, T, T, T, T), kind='range', tag=tag, cls=cls)
        add('r_clamp01_' + tag, 'pub fn r_clamp01_%s(x: %s) -> (%s, %s, bool) { (x.clamped01(), Clamp::clamp01(x), x.is_between01()) }' % (tag, T, T, T), kind='c01', tag=tag, cls=cls)
        if cls != 'uint':
            add('r_clampm11_' + tag, 'pub fn r_clampm11_%s(x: %s) -> (%s, %s) { (x.clamped_minus1_1(), Clamp::clamp_minus1_1(x)) }' % (tag, T, T, T), kind='cm11', tag=tag, cls=cls)
        add('r_wrapped_' + tag, 'pub fn r_wrapped_%s(x: %s, u: %s) -> %s { x.wrapped(u) }' % (tag, T, T, T), kind='wrapped', tag=tag, cls=cls)
        add('r_wrapfn_' + tag, 'pub fn r_wrapfn_%s(x: %s, u: %s) -> %s { Wrap::wrap(x, u) }' % (tag, T, T, T), kind='wrapped', tag=tag, cls=cls)
        add('r_wrapped_between_' + tag, 'pub fn r_wrapped_between_%s(x: %s, lo: %s, hi: %s) -> %s { x.wrapped_between(lo, hi) }' % (tag, T, T, T, T), kind='wrapped_between', tag=tag, cls=cls)
        if not tag.startswith('W'):
            add('r_wrapbetweenfn_' + tag, 'pub fn r_wrapbetweenfn_%s(x: %s, lo: %s, hi: %s) -> %s { Wrap::wrap_between(x, lo, hi) }' % (tag, T, T, T, T), kind='wrapped_between', tag=tag, cls=cls)
        add('r_pingpong_' + tag, 'pub fn r_pingpong_%s(x: %s, u: %s) -> %s { x.pingpong(u) }' % (tag, T, T, T), kind='pingpong', tag=tag, cls=cls)
    for T in FLOATS:
        add('r_pmin_' + T, 'pub fn r_pmin_%s(a: %s, b: %s) -> %s { partial_min(a, b) }' % (T, T, T, T), kind='pmin', tag=T, cls='float')
        add('r_pmax_' + T, 'pub fn r_pmax_%s(a: %s, b: %s) -> %s { partial_max(a, b) }' % (T, T, T, T), kind='pmax', tag=T, cls='float')
        add('r_delta_' + T, 'pub fn r_delta_%s(s: %s, t: %s) -> %s { s.delta_angle(t) }' % (T, T, T, T), kind='delta', tag=T, cls='float', period='2pi')
        add('r_deltadeg_' + T, 'pub fn r_deltadeg_%s(s: %s, t: %s) -> %s { s.delta_angle_degrees(t) }' % (T, T, T, T), kind='delta', tag=T, cls='float', period='360')
        add('r_w2pi_' + T, 'pub fn r_w2pi_%s(x: %s) -> (%s, %s) { (x.wrapped_2pi(), Wrap::wrap_2pi(x)) }' % (T, T, T, T), kind='w2pi', tag=T, cls='float')
    for T in ('i32',):
        add('r_pmin_' + T, 'pub fn r_pmin_%s(a: %s, b: %s) -> %s { partial_min(a, b) }' % (T, T, T, T), kind='pmin', tag=T, cls='sint')
        add('r_pmax_' + T, 'pub fn r_pmax_%s(a: %s, b: %s) -> %s { partial_max(a, b) }' % (T, T, T, T), kind='pmax', tag=T, cls='sint')
    # vector lifts: the scalar law is summarised (an uninterpreted function of its three / two arguments)
    LAWS = [('clamped', 'Clamp', 3), ('is_between', 'IsBetween', 3), ('wrapped', 'Wrap', 2), ('wrapped_between', 'Wrap', 3), ('pingpong', 'Wrap', 2)]
    for K in kinds:
        for ty in ('f32', 'i32'):
            V = '%s<%s>' % (K, ty)
            for f, tr, ar in LAWS:
                pat = '<%s as *%s>::%s' % (ty, tr, f)
                outv = '%s<bool>' % K if f == 'is_between' else V
                if ar == 3:
                    add('r_lift_%s_vv_%s_%s' % (f, ty, K), 'pub fn r_lift_%s_vv_%s_%s(x: %s, lo: %s, hi: %s) -> %s { x.%s(lo, hi) }' % (f, ty, K, V, V, V, outv, f), opaque=[pat], kind='lift', K=K, f=f, tr=tr, ty=ty, ar=3, scalar=False, tag=ty, cls='')
                    add('r_lift_%s_vs_%s_%s' % (f, ty, K), 'pub fn r_lift_%s_vs_%s_%s(x: %s, lo: %s, hi: %s) -> %s { x.%s(lo, hi) }' % (f, ty, K, V, ty, ty, outv, f), opaque=[pat], kind='lift', K=K, f=f, tr=tr, ty=ty, ar=3, scalar=True, tag=ty, cls='')
                else:
                    add('r_lift_%s_vv_%s_%s' % (f, ty, K), 'pub fn r_lift_%s_vv_%s_%s(x: %s, u: %s) -> %s { x.%s(u) }' % (f, ty, K, V, V, outv, f), opaque=[pat], kind='lift', K=K, f=f, tr=tr, ty=ty, ar=2, scalar=False, tag=ty, cls='')
                    add('r_lift_%s_vs_%s_%s' % (f, ty, K), 'pub fn r_lift_%s_vs_%s_%s(x: %s, u: %s) -> %s { x.%s(u) }' % (f, ty, K, V, ty, outv, f), opaque=[pat], kind='lift', K=K, f=f, tr=tr, ty=ty, ar=2, scalar=True, tag=ty, cls='')
    return roots, meta


# ------------------------------------------------------------------ evaluation helpers
def eval_root(rs):
    return CompiledRoot(rs)


def outcome(cr, assign, extra=None):
    env = mkenv(assign)
    if extra: env.update(extra)
    p = cr.run(env)
    if p.out != 'ret': return 'panic'
    return value(p.ret, env)


def flat(v):
    if isinstance(v, (list, tuple)):
        o = []
        for x in v: o.extend(flat(x))
        return o
    return [v]


def grid_check(ctx, key, rs, names, domain, oracle, rule, w, extra=None):
    """evaluate the abstract path set on every assignment of the grid; oracle(vals) -> expected | None"""
    cr = eval_root(rs); n = 0; sk = 0; bad = None
    for vals in itertools.product(*domain):
        exp = oracle(*vals)
        if exp is None: sk += 1; continue
        try: got = outcome(cr, dict(zip(names, vals)), extra)
        except (AssertionError, ZeroDivisionError, KeyError) as e:
            bad = (vals, exp, 'evaluation failed: %r' % (e,)); break
        n += 1
        ok = (got == 'panic') == (exp == 'panic')
        if ok and exp != 'panic':
            g = flat(got); e = flat(exp)
            ok = len(g) == len(e) and all((bool(x) == y) if isinstance(y, bool) else (not isinstance(x, bool) and Fraction(x) == Fraction(y)) for x, y in zip(g, e))
        if not ok: bad = (vals, exp, got); break
    ctx.counts['grid:' + key] = n
    ctx.evals = getattr(ctx, 'evals', 0) + n
    return ctx.ob(key, bad is None and n > 0, rule, w, 'law holds on %d grid points / orderings (%d unconstrained)' % (n, sk), None if bad is None else 'at %s: expected %s, abstract result %s' % tuple(str(x) for x in bad))


def clamp_oracle(x, lo, hi):
    if lo > hi: return 'panic'
    return lo if x < lo else hi if x > hi else x


def tri(x, u):
    t = x % (2 * u)
    return t if t <= u else 2 * u - t


# ------------------------------------------------------------------ definite intermediate overflow (witness search on the abstract semantics)
BITS = {'i8': 8, 'i16': 16, 'i32': 32, 'i64': 64, 'isize': 64, 'u8': 8, 'u16': 16, 'u32': 32, 'u64': 64, 'usize': 64}


def trange(ty):
    b = BITS[ty]
    return (-(1 << (b - 1)), (1 << (b - 1)) - 1) if ty[0] == 'i' else (0, (1 << b) - 1)


def candidates(ty):
    lo, hi = trange(ty)
    c = {lo, lo + 1, 0, 1, 2, 5, hi // 2, hi // 2 + 1, hi - 1, hi, hi - hi // 4}
    if lo < 0: c |= {-1, -2, -5, lo // 2, lo // 2 - 1, -(hi // 4) * 3}
    return sorted(c)


def overflow_rule(ctx, key, rs, names, ty, law, w):
    """search for an input where the documented result is representable but a checked intermediate operation of the integer type overflows;
    the witness is validated on the abstract path set (the path is feasible there, the operation's ideal value leaves the type's range)"""
    cr = eval_root(rs)
    lo, hi = trange(ty)
    found = {}
    n = 0
    for vals in itertools.product(*[candidates(ty)] * len(names)):
        exp = law(*vals)
        if exp is None or exp == 'panic' or not (lo <= exp <= hi): continue
        env = mkenv(dict(zip(names, vals)))
        try: p = cr.run(env)
        except (AssertionError, ZeroDivisionError, KeyError): continue
        if p.out != 'ret': continue
        n += 1
        for e in p.events:
            if e[0] != 'ovf': continue
            opn = e[1]
            if not opn.endswith(':' + ty): continue
            t = p.term(e[2])
            try: v = value(t, env)
            except (ZeroDivisionError, KeyError): continue
            if not (lo <= v <= hi):
                site = '%s(%s)' % (opn.split(':')[0], str(t)[:80])
                if site not in found: found[site] = (vals, v, exp)
    ctx.evals = getattr(ctx, 'evals', 0) + n
    ctx.counts['overflow-witness-points:' + key] = n
    if not found:
        ctx.ob(key + '/no-overflow-witness', n > 0, 'witness search: no input among the boundary candidates makes a checked intermediate operation overflow while the result is representable (bounded search, not a proof of absence)', w, '%d candidate inputs' % n, 'no candidate evaluated')
    for site, (vals, v, exp) in sorted(found.items()):
        ctx.ob('%s/overflow/%s' % (key, site), False, 'witness: a checked intermediate operation of the operand type overflows (panic in debug builds, wrapped value in release) although the documented result is representable', w,
               'result %s is representable in %s' % (exp, ty), 'inputs %s = %s: intermediate value %s is outside %s\'s range' % (names, list(vals), v, ty))


def run(ctx):
    ctx.level = 'other'
    ctx.explanation = ('Clamp / range test / partial_min / partial_max touch their scalars only through comparisons: the MIR path set of each of the 22 implementing types is evaluated on all 13 weak orderings of (value, lower, upper) '
                       'against the definition (value if inside, nearer bound otherwise, panic iff lower > upper), including idempotence and agreement with the range test; trait defaults are evaluated on every order type of the value '
                       'relative to their constants. Wrap/pingpong/delta-angle: panic outcomes are decided on every order type of the bounds relative to zero and each other; float formulas are compared as canonical expressions with '
                       'x - floor(x/u)u, wrapped(x-lo, hi-lo)+lo, u - |wrapped(x,2u) - u|, and the two-path shape of the angle difference, and the abstract results are evaluated in exact rational arithmetic on a grid against the range/congruence laws; '
                       'integer impls are evaluated in ideal integer arithmetic on a small grid (bounded). Vector lifts apply the (summarised) scalar law to the i-th elements, scalar bounds standing for their broadcast.')
    ctx.assumptions = ['totally ordered scalars (NaN excluded)', 'integer wrap/pingpong value laws: ideal (unbounded) integer arithmetic on a bounded grid only; machine overflow of intermediates is NOT decided (see DESIGN.md, C17)', 'float laws in exact arithmetic (ulp bounds, infinities not decided)']
    feats = ALL_FEATURES
    kinds = vec_kinds(feats) if ctx.tier == 'thorough' else ['Vec2', 'Vec3', 'Vec4', 'Extent2', 'Extent3', 'Rgb', 'Rgba', 'Uv', 'Uvw', 'Vec8']
    roots, meta = build_roots(kinds)
    sc = ctx.scan(roots, feats)
    if sc.compile_error: return
    done = 0
    H = Fraction(1, 2)
    for r in roots:
        rs = sc.get(r.name); m = meta[r.name]
        if rs is None or not rs.ok: continue
        done += 1
        k = m['kind']; tag = m['tag']; cls = m['cls']; key = 'c17/' + r.name[2:]; w = r.code
        n3 = [leaf(tag, 0), leaf(tag, 1), leaf(tag, 2)]; n2 = n3[:2]; n1 = n3[:1]
        ranks3 = [list(range(3))] * 3
        try:
            if k == 'clamped':
                grid_check(ctx, key, rs, n3, ranks3, clamp_oracle, 'ord: clamp returns the value when inside the bounds, the nearer bound otherwise, panics iff lower > upper' + (' (applied twice: idempotent)' if m.get('idem') else ''), w)
            elif k == 'isb':
                grid_check(ctx, key, rs, n3, ranks3, lambda x, lo, hi: 'panic' if lo > hi else (lo <= x <= hi), 'ord: is_between <=> lower <= value <= upper, panics iff lower > upper', w)
            elif k == 'agree':
                grid_check(ctx, key, rs, n3, ranks3, lambda x, lo, hi: 'panic' if lo > hi else [lo <= x <= hi, lo <= x <= hi], 'ord: clamped(x) == x exactly when is_between(x)', w)
            elif k == 'range':
                def orc(x, lo, hi):
                    if lo > hi: return 'panic'
                    c = clamp_oracle(x, lo, hi); return [c, c, lo <= x <= hi]
                grid_check(ctx, key, rs, n3, ranks3, orc, 'ord: the inclusive-range forms use the range start as lower and its end as upper bound', w)
            elif k == 'c01':
                dom = [[-1, -H, 0, H, 1, 3 * H, 2]] if cls == 'float' else [[-2, -1, 0, 1, 2, 3]] if cls == 'sint' else [[0, 1, 2, 3]]
                grid_check(ctx, key, rs, n1, dom, lambda x: [clamp_oracle(x, 0, 1), clamp_oracle(x, 0, 1), 0 <= x <= 1], 'ord: clamped01 / clamp01 / is_between01 use the bounds 0 and 1', w)
            elif k == 'cm11':
                dom = [[-2, -3 * H, -1, -H, 0, H, 1, 3 * H, 2]] if cls == 'float' else [[-3, -2, -1, 0, 1, 2, 3]]
                grid_check(ctx, key, rs, n1, dom, lambda x: [clamp_oracle(x, -1, 1), clamp_oracle(x, -1, 1)], 'ord: clamped_minus1_1 / clamp_minus1_1 use the bounds -1 and 1', w)
            elif k in ('pmin', 'pmax'):
                grid_check(ctx, key, rs, ['a0', 'a1'], [[0, 1, 2]] * 2, (lambda a, b: min(a, b)) if k == 'pmin' else (lambda a, b: max(a, b)), 'ord: partial_min / partial_max return the smaller / larger operand', w)
            elif k == 'wrapped':
                if cls == 'float':
                    xs = [Fraction(i, 2) for i in range(-9, 10)]; us = [-1, 0, H, 1, 3 * H, 2, 3]
                    def orc(x, u):
                        if not u > 0: return 'panic'
                        return x - floor(x / u) * u          # the unique value in [0,u) congruent to x modulo u
                    grid_check(ctx, key + '/law', rs, n2, [xs, us], orc, 'grid (exact rationals): wrapped(x,u) is the value in [0,u) congruent to x mod u; panics iff not u > 0', w)
                    rets = [p for p in rs.paths if p.out == 'ret']
                    x, u = sym(n2[0]), sym(n2[1])
                    ctx.ob(key + '/formula', len(rets) >= 1 and all(p.ret == x - fn('floor', x / u) * u for p in rets), 'alg=: float wrapped = x - floor(x/u)*u on the returning path', w, 'x - floor(x/u)*u', [str(p.ret) for p in rets][:2])
                else:
                    xs = list(range(-7, 8)) if cls == 'sint' else list(range(0, 12)); us = list(range(-2, 5)) if cls == 'sint' else list(range(0, 5))
                    grid_check(ctx, key + '/law', rs, n2, [xs, us], lambda x, u: 'panic' if not u > 0 else x % u, 'grid (ideal integers, bounded): wrapped(x,u) is the value in [0,u) congruent to x mod u; panics iff not u > 0', w)
                    if not tag.startswith('W') and r.name.startswith('r_wrapped_'): overflow_rule(ctx, key, rs, n2, tag, lambda x, u: None if not u > 0 else x % u, w)
            elif k == 'wrapped_between':
                if cls == 'float':
                    xs = [Fraction(i, 2) for i in range(-7, 12)]; los = [-1, 0, H, 1, 2]; his = [-1, 0, H, 1, 2, 7 * H]
                else:
                    xs = list(range(-7, 12)) if cls == 'sint' else list(range(0, 14)); los = list(range(-1, 4)) if cls == 'sint' else list(range(0, 4)); his = list(range(-1, 6)) if cls == 'sint' else list(range(0, 6))
                def orc(x, lo, hi):
                    if not (lo < hi) or not (lo >= 0) or not (hi > 0): return 'panic'
                    return lo + (x - lo) % (hi - lo)
                grid_check(ctx, key + '/law', rs, n3, [xs, los, his], orc, 'grid (%s): wrapped_between is the value in [lower,upper) congruent to x modulo upper-lower; panics iff not (lower < upper, lower >= 0, upper > 0)' % ('exact rationals' if cls == 'float' else 'ideal integers, bounded'), w)
                if cls != 'float' and not tag.startswith('W') and r.name.startswith('r_wrapped_between_'): overflow_rule(ctx, key, rs, n3, tag, lambda x, lo, hi: None if (not (lo < hi) or not (lo >= 0) or not (hi > 0)) else lo + (x - lo) % (hi - lo), w)
                if cls == 'float':
                    rets = [p for p in rs.paths if p.out == 'ret']
                    x, lo, hi = sym(n3[0]), sym(n3[1]), sym(n3[2]); d = hi - lo
                    ctx.ob(key + '/formula', len(rets) >= 1 and all(p.ret == (x - lo) - fn('floor', (x - lo) / d) * d + lo for p in rets), 'alg=: float wrapped_between = wrapped(x - lower, upper - lower) + lower', w, 'wrapped(x-lo, hi-lo)+lo', [str(p.ret) for p in rets][:2])
            elif k == 'pingpong':
                if cls == 'float':
                    xs = [Fraction(i, 2) for i in range(-13, 14)]; us = [-1, 0, H, 1, 3 * H, 2]
                else:
                    xs = list(range(-9, 14)) if cls == 'sint' else list(range(0, 20)); us = list(range(-1, 5)) if cls == 'sint' else list(range(0, 5))
                grid_check(ctx, key + '/law', rs, n2, [xs, us], lambda x, u: 'panic' if not u > 0 else tri(x, u), 'grid (%s): pingpong is the triangle wave of period 2*upper with values in [0,upper]; panics iff not upper > 0' % ('exact rationals' if cls == 'float' else 'ideal integers, bounded'), w)
                if cls != 'float' and not tag.startswith('W'): overflow_rule(ctx, key, rs, n2, tag, lambda x, u: None if not u > 0 else tri(x, u), w)
                if cls == 'float':
                    rets = [p for p in rs.paths if p.out == 'ret']
                    x, u = sym(n2[0]), sym(n2[1]); t = x - fn('floor', x / (u + u)) * (u + u)
                    ctx.ob(key + '/formula', len(rets) >= 1 and all(p.ret == u - fabs(t - u) for p in rets), 'alg=: float pingpong = u - |wrapped(x, 2u) - u|', w, 'u - |wrapped(x,2u) - u|', [str(p.ret) for p in rets][:2])
            elif k == 'delta':
                s, t = sym('a0'), sym('a1')
                if m['period'] == '2pi':
                    P = C(2) * named('pi'); half = named('pi'); pv = Fraction(3); extra = {atom_const('pi'): pv}
                    ds = [Fraction(i, 2) for i in range(-30, 31)]; per = 2 * pv; hv = pv
                else:
                    P = C(360); half = C(180); extra = None; ds = [Fraction(45 * i, 1) for i in range(-20, 21)] + [Fraction(1, 2), Fraction(-361, 2)]; per = Fraction(360); hv = Fraction(180)
                n = (t - s) - fn('floor', (t - s) / P) * P
                rets = [p for p in rs.paths if p.out == 'ret']
                feas = [p for p in rets if not any(isinstance(c, B) and c.k == 'const' and not c.a[0] for c in cond_leaves(p))]
                shape_ok = len(feas) == 2
                for p in feas:
                    conds = [c for c in cond_leaves(p) if not (isinstance(c, B) and c.k == 'const')]
                    big = any(c == gt(n, half) for c in conds); small = any(c == le(n, half) for c in conds)
                    if big: shape_ok &= (p.ret == n - P)
                    elif small: shape_ok &= (p.ret == n)
                    else: shape_ok = False
                ctx.ob(key + '/shape', shape_ok, 'paths: n = wrap(target - self, period); result n - period exactly when n > period/2, else n', w, 'two paths decided by n > half period', [(str(p.ret), [str(c) for c in p.conds]) for p in feas][:2])
                def orc(d):
                    r0 = d % per
                    return r0 - per if r0 > hv else r0    # the representative of d modulo the period in (-half, half]
                cr = eval_root(rs); bad = None; cnt = 0
                for d in ds:
                    for s0 in (Fraction(0), Fraction(7, 2)):
                        env = mkenv({'a0': s0, 'a1': s0 + d})
                        if extra: env.update(extra)
                        try:
                            p = cr.run(env); got = 'panic' if p.out != 'ret' else value(p.ret, env)
                        except Exception as e:
                            got = 'evaluation failed: %r' % (e,)
                        cnt += 1
                        if got != orc(d): bad = (d, orc(d), got); break
                    if bad: break
                ctx.evals = getattr(ctx, 'evals', 0) + cnt
                ctx.ob(key + '/law', bad is None, 'grid (exact rationals, any positive value for pi): the angle difference lies in (-half period, half period] and is congruent to target - self', w, '%d differences incl. exact multiples of the half period' % cnt, bad)
            elif k == 'w2pi':
                x = sym('a0'); P = C(2) * named('pi')
                rets = [p for p in rs.paths if p.out == 'ret']
                e = x - fn('floor', x / P) * P
                ctx.ob(key, len(rets) == 1 and all(v == e for v in leaves(rets[0].ret)), 'alg=: wrapped_2pi / wrap_2pi = wrapped(x, 2 pi)', w, str(e), [str(v) for p in rets for v in leaves(p.ret)])
            elif k == 'lift':
                K = m['K']; N = vdim(K); p = rs.only()
                X = vsyms('a0', K)
                ar = m['ar']
                if m['scalar']: args = [[sym('a%d' % j)] * N for j in range(1, ar)]
                else: args = [vsyms('a%d' % j, K) for j in range(1, ar)]
                got = leaves(p.ret)
                calls = [e for e in p.ev('call')]
                name = calls[0][1] if calls else '?'
                exp = [fn('call:' + name, X[i], *[a[i] for a in args]) for i in range(N)]
                okn = name.endswith('%s>::%s' % (m['tr'], m['f'])) and name.startswith('<%s as ' % m['ty'])
                ctx.ob(key + '/law', okn and len(calls) == N, 'deleg: the vector form applies the scalar %s once per element' % m['f'], w, '%d calls of <%s as %s>::%s' % (N, m['ty'], m['tr'], m['f']), '%d calls of %s' % (len(calls), name))
                if m['f'] == 'is_between':
                    from ..sem import as_bool
                    ok = len(got) == N and all((g == as_bool(e)) if isinstance(g, B) else (g == e) for g, e in zip(got, exp))
                    ctx.ob(key, ok, 'deleg: element i of the result is the scalar law on (x[i], lower[i], upper[i]) (a scalar bound stands for its broadcast)', w, [str(e) for e in exp][:3], [str(g) for g in got][:3])
                else:
                    vec_eq(ctx, key, p.ret, exp, 'deleg: element i of the result is the scalar law on (x[i], bounds[i]) (a scalar bound stands for its broadcast)', w)
        except (AssertionError, KeyError, ValueError, TypeError, IndexError, ZeroDivisionError, AttributeError) as e:
            ctx.ob(key + '/paths', False, 'path structure', w, 'analysable', str(e))
    ctx.floor('roots analysed', done, len(roots))
    ctx.floor('implementing scalar types', len(all_types()), 22)
    ctx.floor('grid points / orderings evaluated', getattr(ctx, 'evals', 0), 10000)
