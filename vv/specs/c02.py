"""C02 — vector operators and reductions act element-wise on every vector type."""
from ..run import Root, leaves, Ptr, Enum
from ..alg import C, sym, fn, Rat
from ..sem import B, Sem, eq, ne, lt, le, gt, ge, as_bool, minmax
from ..shapes import *
from ..rules import *
from .. import alg

ID = 'C02'

FOPS = [('add', '+', 'Add'), ('sub', '-', 'Sub'), ('mul', '*', 'Mul'), ('div', '/', 'Div'), ('rem', '%', 'Rem')]
IOPS = [('shl', '<<', 'Shl'), ('shr', '>>', 'Shr'), ('bitand', '&', 'BitAnd'), ('bitor', '|', 'BitOr'), ('bitxor', '^', 'BitXor')]
_S = Sem([])


def sop(op, ty, x, y): return _S.arith(op, ty, [x, y])


def ctor(K, elems):
    return '%s::new(%s)' % (K, ', '.join(elems))


SC_PRELUDE = '''
#[derive(Clone, Copy)] pub struct Sc(pub f32);
macro_rules! sc_muladd { ($($S:ty, $A:ty, $B:ty);+) => { $(impl<'a, 'b, 'c> vek::ops::MulAdd<$A, $B> for $S { type Output = Sc; #[inline] fn mul_add(self, a: $A, b: $B) -> Sc { Sc(self.0 * a.0 + b.0) } })+ } }
/// an iterator that does not know its length (size_hint = (0, None), the default): the emptiness of a source must be found out by pulling
pub struct Lazy3<T>(pub Option<T>, pub Option<T>, pub Option<T>);
impl<T> Iterator for Lazy3<T> { type Item = T; fn next(&mut self) -> Option<T> { if let Some(x) = self.0.take() { return Some(x); } if let Some(x) = self.1.take() { return Some(x); } self.2.take() } }
sc_muladd!{Sc, Sc, Sc; Sc, Sc, &'b Sc; Sc, &'a Sc, Sc; Sc, &'a Sc, &'b Sc; &'c Sc, Sc, Sc; &'c Sc, Sc, &'b Sc; &'c Sc, &'a Sc, Sc; &'c Sc, &'a Sc, &'b Sc}
'''
PER_TYPE_RED = ['i8', 'i16', 'i64', 'u8', 'u16', 'u32', 'u64', 'f64'] + ['core::num::Wrapping<%s>' % t for t in ('i8', 'i16', 'i32', 'i64', 'u8', 'u16', 'u32', 'u64')]
PER_TYPE_SV = ['i8', 'i16', 'i32', 'i64', 'u8', 'u16', 'u32', 'u64', 'f64']


def tyname(ty): return ty.replace('core::num::Wrapping<', 'W').replace('>', '')


def build_roots(kinds, tier='thorough'):
    roots = []; meta = {}

    def add(name, code, max_paths=80, opaque=(), **m):
        roots.append(Root(name, code, max_paths=max_paths, opaque=opaque)); meta[name] = m

    for K in kinds:
        n = vdim(K)
        # integer division / remainder separately: over the integers `/` truncates, so a/s is not a*(1/s) (an identity for floats in exact arithmetic)
        for ty, ops, tg in (('f32', FOPS, ''), ('i32', IOPS, ''), ('i32', FOPS[3:], 'i')):
            V = '%s<%s>' % (K, ty)
            for op, sy, tr in ops:
                forms = {
                    'vv': ('a: %s, b: %s' % (V, V), 'a %s b' % sy), 'vr': ('a: %s, b: %s' % (V, V), 'a %s &b' % sy),
                    'rv': ('a: %s, b: %s' % (V, V), '&a %s b' % sy), 'rr': ('a: %s, b: %s' % (V, V), '&a %s &b' % sy),
                    'vs': ('a: %s, s: %s' % (V, ty), 'a %s s' % sy), 'rs': ('a: %s, s: %s' % (V, ty), '&a %s s' % sy),
                    'rrs': ('a: %s, s: %s' % (V, ty), '&a %s &s' % sy),
                }
                for fk, (params, body) in forms.items():
                    nm = 'r_%s%s_%s_%s' % (op, tg, fk, K)
                    add(nm, 'pub fn %s(%s) -> %s { %s }' % (nm, params, V, body), kind='binop', op=op, ty=ty, K=K, scalar=fk.endswith('s'))
                nm = 'r_%s%s_asg_%s' % (op, tg, K)
                add(nm, 'pub fn %s(a: %s, b: %s) -> %s { let mut v = a; v %s= b; v }' % (nm, V, V, V, sy), kind='binop', op=op, ty=ty, K=K, scalar=False)
                nm = 'r_%s%s_asgs_%s' % (op, tg, K)
                add(nm, 'pub fn %s(a: %s, s: %s) -> %s { let mut v = a; v %s= s; v }' % (nm, V, ty, V, sy), kind='binop', op=op, ty=ty, K=K, scalar=True)
                if op in ('add', 'mul'):
                    nm = 'r_%s_sv_%s' % (op, K)
                    add(nm, 'pub fn %s(s: f32, a: %s) -> %s { s %s a }' % (nm, V, V, sy), kind='sv', op=op, ty=ty, K=K)
        VF = '%s<f32>' % K; VI = '%s<i32>' % K; VB = '%s<bool>' % K
        add('r_sv_i32_add_%s' % K, 'pub fn r_sv_i32_add_%s(s: i32, a: %s) -> %s { s + a }' % (K, VI, VI), kind='sv', op='add', ty='i32', K=K)
        add('r_neg_%s' % K, 'pub fn r_neg_%s(a: %s) -> %s { -a }' % (K, VF, VF), kind='neg', K=K)
        add('r_not_%s' % K, 'pub fn r_not_%s(a: %s) -> %s { !a }' % (K, VI, VI), kind='not', K=K)
        # fused multiply-add: trait forms and inherent
        for fk, (x, y, z) in {'vvv': ('a', 'b', 'c')}.items():  # the reference forms need `&T: MulAdd`, which no primitive provides
            nm = 'r_fma_%s_%s' % (fk, K)
            add(nm, 'pub fn %s(a: %s, b: %s, c: %s) -> %s { vek::ops::MulAdd::mul_add(%s, %s, %s) }' % (nm, VF, VF, VF, VF, x, y, z), kind='fma', K=K)
        # the seven forms with a borrowed operand need `&T: MulAdd` / `T: MulAdd<&T, ..>`, which no primitive provides: analysed with the
        # scalar type `Sc` of the generated crate, which implements all eight forms as self*a + b
        VS = '%s<Sc>' % K
        for fk, (x, y, z) in {'vvr': ('v', 'a', '&b'), 'vrv': ('v', '&a', 'b'), 'vrr': ('v', '&a', '&b'), 'rvv': ('&v', 'a', 'b'), 'rvr': ('&v', 'a', '&b'), 'rrv': ('&v', '&a', 'b'), 'rrr': ('&v', '&a', '&b'), 'vvv': ('v', 'a', 'b')}.items():
            nm = 'r_fmasc_%s_%s' % (fk, K)
            add(nm, 'pub fn %s(v: %s, a: %s, b: %s) -> %s { vek::ops::MulAdd::mul_add(%s, %s, %s) }' % (nm, VS, VS, VS, VS, x, y, z), kind='fmasc', K=K)
        add('r_fma_free_%s' % K, 'pub fn r_fma_free_%s(a: %s, b: %s, c: %s) -> %s { vek::ops::mul_add(a, b, c) }' % (K, VF, VF, VF, VF), kind='fma', K=K)
        add('r_fma_inh_%s' % K, 'pub fn r_fma_inh_%s(a: %s, b: %s, c: %s) -> %s { %s::mul_add(a, b, c) }' % (K, VF, VF, VF, VF, K), kind='fma', K=K)
        add('r_fma_inhs_%s' % K, 'pub fn r_fma_inhs_%s(a: %s, b: f32, c: f32) -> %s { %s::mul_add(a, b, c) }' % (K, VF, VF, K), kind='fma_s', K=K)
        # reductions
        add('r_sum_%s' % K, 'pub fn r_sum_%s(a: %s) -> f32 { a.sum() }' % (K, VF), kind='red', f='sum', K=K)
        add('r_product_%s' % K, 'pub fn r_product_%s(a: %s) -> f32 { a.product() }' % (K, VF), kind='red', f='product', K=K)
        add('r_average_%s' % K, 'pub fn r_average_%s(a: %s) -> f32 { a.average() }' % (K, VF), kind='red', f='average', K=K)
        add('r_reduce_%s' % K, 'pub fn r_reduce_%s(a: %s, f: fn(f32, f32) -> f32) -> f32 { a.reduce(|x, y| f(x, y)) }' % (K, VF), kind='reduce', K=K)
        add('r_reduce_min_%s' % K, 'pub fn r_reduce_min_%s(a: %s) -> i32 { a.reduce_min() }' % (K, VI), kind='red', f='min', K=K)
        add('r_reduce_max_%s' % K, 'pub fn r_reduce_max_%s(a: %s) -> i32 { a.reduce_max() }' % (K, VI), kind='red', f='max', K=K)
        add('r_reduce_pmin_%s' % K, 'pub fn r_reduce_pmin_%s(a: %s) -> f32 { a.reduce_partial_min() }' % (K, VF), opaque=['vek::partial_min'], kind='redp', f='vek::partial_min', K=K)
        add('r_reduce_pmax_%s' % K, 'pub fn r_reduce_pmax_%s(a: %s) -> f32 { a.reduce_partial_max() }' % (K, VF), opaque=['vek::partial_max'], kind='redp', f='vek::partial_max', K=K)
        for f in ('bitand', 'bitor', 'bitxor'):
            add('r_reduce_%s_%s' % (f, K), 'pub fn r_reduce_%s_%s(a: %s) -> i32 { a.reduce_%s() }' % (f, K, VI, f), kind='red', f=f, K=K)
        add('r_reduce_and_b_%s' % K, 'pub fn r_reduce_and_b_%s(a: %s) -> bool { a.reduce_and() }' % (K, VB), kind='rbool', f='and', ty='bool', K=K)
        add('r_reduce_or_b_%s' % K, 'pub fn r_reduce_or_b_%s(a: %s) -> bool { a.reduce_or() }' % (K, VB), kind='rbool', f='or', ty='bool', K=K)
        add('r_reduce_and_i_%s' % K, 'pub fn r_reduce_and_i_%s(a: %s) -> bool { a.reduce_and() }' % (K, VI), kind='rbool', f='and', ty='i32', K=K)
        add('r_reduce_or_i_%s' % K, 'pub fn r_reduce_or_i_%s(a: %s) -> bool { a.reduce_or() }' % (K, VI), kind='rbool', f='or', ty='i32', K=K)
        add('r_reduce_and_f_%s' % K, 'pub fn r_reduce_and_f_%s(a: %s) -> bool { a.reduce_and() }' % (K, VF), kind='rbool', f='and', ty='f32', K=K)
        add('r_reduce_or_f_%s' % K, 'pub fn r_reduce_or_f_%s(a: %s) -> bool { a.reduce_or() }' % (K, VF), kind='rbool', f='or', ty='f32', K=K)
        # the boolean reductions and the scalar-on-the-left operators are separate impls per primitive type (macro arms): every arm is analysed
        wide = n > 8
        for ty in PER_TYPE_RED:
            if wide and tier == 'quick': continue
            tn = tyname(ty); VT = '%s<%s>' % (K, ty)
            add('r_reduce_and_%s_%s' % (tn, K), 'pub fn r_reduce_and_%s_%s(a: %s) -> bool { a.reduce_and() }' % (tn, K, VT), kind='rbool', f='and', ty=ty, K=K)
            add('r_reduce_or_%s_%s' % (tn, K), 'pub fn r_reduce_or_%s_%s(a: %s) -> bool { a.reduce_or() }' % (tn, K, VT), kind='rbool', f='or', ty=ty, K=K)
        for ty in PER_TYPE_SV:
            tn = tyname(ty); VT = '%s<%s>' % (K, ty)
            for op, sy in (('add', '+'), ('mul', '*')):
                if (ty, op) in (('f32', 'add'), ('f32', 'mul'), ('i32', 'add')): continue
                add('r_sv_%s_%s_%s' % (tn, op, K), 'pub fn r_sv_%s_%s_%s(s: %s, a: %s) -> %s { s %s a }' % (tn, op, K, ty, VT, VT, sy), kind='sv', op=op, ty=ty, K=K)
        if not (wide and tier == 'quick'):
            add('r_reduce_ne_%s' % K, '#[allow(deprecated)] pub fn r_reduce_ne_%s(a: %s) -> bool { a.reduce_ne() }' % (K, VB), kind='rne', K=K, max_paths=600)
        # element-wise min/max and comparison masks
        add('r_min_%s' % K, 'pub fn r_min_%s(a: %s, b: %s) -> %s { %s::min(a, b) }' % (K, VI, VI, VI, K), kind='minmax', f='min', K=K)
        add('r_max_%s' % K, 'pub fn r_max_%s(a: %s, b: %s) -> %s { %s::max(a, b) }' % (K, VI, VI, VI, K), kind='minmax', f='max', K=K)
        add('r_pmin_%s' % K, 'pub fn r_pmin_%s(a: %s, b: %s) -> %s { %s::partial_min(a, b) }' % (K, VF, VF, VF, K), opaque=['vek::partial_min'], kind='pminmax', f='vek::partial_min', K=K)
        add('r_pmax_%s' % K, 'pub fn r_pmax_%s(a: %s, b: %s) -> %s { %s::partial_max(a, b) }' % (K, VF, VF, VF, K), opaque=['vek::partial_max'], kind='pminmax', f='vek::partial_max', K=K)
        for c in ('eq', 'ne', 'ge', 'gt', 'le', 'lt'):
            add('r_cmp%s_%s' % (c, K), 'pub fn r_cmp%s_%s(a: %s, b: %s) -> %s { a.cmp%s(&b) }' % (c, K, VI, VI, VB, c), kind='cmp', c=c, K=K)
            add('r_pcmp%s_%s' % (c, K), 'pub fn r_pcmp%s_%s(a: %s, b: %s) -> %s { a.partial_cmp%s(&b) }' % (c, K, VF, VF, VB, c), kind='cmp', c=c, K=K)
            add('r_cmp%s_simd_%s' % (c, K), 'pub fn r_cmp%s_simd_%s(a: %s, b: %s) -> %s { a.cmp%s_simd(b) }' % (c, K, VI, VI, VB, c), kind='cmp', c=c, K=K)
            add('r_pcmp%s_simd_%s' % (c, K), 'pub fn r_pcmp%s_simd_%s(a: %s, b: %s) -> %s { a.partial_cmp%s_simd(b) }' % (c, K, VF, VF, VB, c), kind='cmp', c=c, K=K)
        # map family
        add('r_map_%s' % K, 'pub fn r_map_%s(a: %s, f: fn(f32) -> f32) -> %s { a.map(|x| f(x)) }' % (K, VF, VF), kind='map', ar=1, K=K)
        add('r_map2_%s' % K, 'pub fn r_map2_%s(a: %s, b: %s, f: fn(f32, f32) -> f32) -> %s { a.map2(b, |x, y| f(x, y)) }' % (K, VF, VF, VF), kind='map', ar=2, K=K)
        add('r_map3_%s' % K, 'pub fn r_map3_%s(a: %s, b: %s, c: %s, f: fn(f32, f32, f32) -> f32) -> %s { a.map3(b, c, |x, y, z| f(x, y, z)) }' % (K, VF, VF, VF, VF), kind='map', ar=3, K=K)
        add('r_apply_%s' % K, 'pub fn r_apply_%s(a: &mut %s, f: fn(f32) -> f32) { a.apply(|x| f(x)) }' % (K, VF), kind='apply', ar=1, K=K)
        add('r_apply2_%s' % K, 'pub fn r_apply2_%s(a: &mut %s, b: %s, f: fn(f32, f32) -> f32) { a.apply2(b, |x, y| f(x, y)) }' % (K, VF, VF), kind='apply', ar=2, K=K)
        add('r_apply3_%s' % K, 'pub fn r_apply3_%s(a: &mut %s, b: %s, c: %s, f: fn(f32, f32, f32) -> f32) { a.apply3(b, c, |x, y, z| f(x, y, z)) }' % (K, VF, VF, VF), kind='apply', ar=3, K=K)
        add('r_zip_%s' % K, 'pub fn r_zip_%s(a: %s, b: %s) -> %s<(f32, i32)> { a.zip(b) }' % (K, VF, VI, K), kind='zip', K=K)
        # constructors / conversions
        add('r_broadcast_%s' % K, 'pub fn r_broadcast_%s(s: f32) -> %s { %s::broadcast(s) }' % (K, VF, K), kind='bc', K=K)
        add('r_froms_%s' % K, 'pub fn r_froms_%s(s: f32) -> %s { %s::from(s) }' % (K, VF, K), kind='bc', K=K)
        add('r_zero_%s' % K, 'pub fn r_zero_%s() -> %s { %s::zero() }' % (K, VF, K), kind='constv', c=0, K=K)
        add('r_one_%s' % K, 'pub fn r_one_%s() -> %s { %s::one() }' % (K, VF, K), kind='constv', c=1, K=K)
        add('r_iota_%s' % K, 'pub fn r_iota_%s() -> %s { %s::iota() }' % (K, VF, K), kind='iota', K=K)
        add('r_default_%s' % K, 'pub fn r_default_%s() -> %s { Default::default() }' % (K, VF), kind='constv', c=0, K=K)
        args = ', '.join('m[%d]' % i for i in range(n))
        add('r_new_%s' % K, 'pub fn r_new_%s(m: [f32; %d]) -> %s { %s::new(%s) }' % (K, n, VF, K, args), kind='fromarr', K=K)
        add('r_fromarr_%s' % K, 'pub fn r_fromarr_%s(m: [f32; %d]) -> %s { %s::from(m) }' % (K, n, VF, K), kind='fromarr', K=K)
        tup = '(%s)' % ', '.join(['f32'] * n)
        add('r_fromtup_%s' % K, 'pub fn r_fromtup_%s(m: %s) -> %s { %s::from(m) }' % (K, tup, VF, K), kind='fromtup', K=K)
        add('r_intotup_%s' % K, 'pub fn r_intotup_%s(a: %s) -> %s { a.into_tuple() }' % (K, VF, tup), kind='ident', K=K)
        add('r_intoarr_%s' % K, 'pub fn r_intoarr_%s(a: %s) -> [f32; %d] { a.into_array() }' % (K, VF, n), kind='ident', K=K)
        add('r_fromslice_%s' % K, 'pub fn r_fromslice_%s(m: [f32; %d]) -> %s { %s::from_slice(&m) }' % (K, n, VF, K), kind='fromarr', K=K)
        add('r_fromslice_short_%s' % K, 'pub fn r_fromslice_short_%s(m: [f32; %d]) -> %s { %s::from_slice(&m) }' % (K, n - 1, VF, K), kind='fromshort', K=K)
        add('r_fromslice_long_%s' % K, 'pub fn r_fromslice_long_%s(m: [f32; %d]) -> %s { %s::from_slice(&m) }' % (K, n + 2, VF, K), kind='fromarr', K=K)
        add('r_fromiter_%s' % K, 'pub fn r_fromiter_%s(m: [f32; %d]) -> %s { m.iter().cloned().collect() }' % (K, n, VF), kind='fromarr', K=K)
        add('r_elemcount_%s' % K, 'pub fn r_elemcount_%s(a: %s) -> (usize, usize) { (a.elem_count(), %s::<f32>::ELEM_COUNT) }' % (K, VF, K), kind='count', K=K)
        add('r_hadd_%s' % K, 'pub fn r_hadd_%s(a: %s, b: %s) -> %s { a.hadd(b) }' % (K, VF, VF, VF), kind='hadd', K=K)
        for f in ('sqrt', 'rsqrt', 'recip', 'ceil', 'floor', 'round'):
            add('r_%s_%s' % (f, K), 'pub fn r_%s_%s(a: %s) -> %s { a.%s() }' % (f, K, VF, VF, f), kind='unary', f=f, K=K)
        add('r_isneg_%s' % K, 'pub fn r_isneg_%s(a: %s) -> bool { a.is_any_negative() }' % (K, VI), kind='anyneg', K=K)
        add('r_allpos_%s' % K, 'pub fn r_allpos_%s(a: %s) -> bool { a.are_all_positive() }' % (K, VI), kind='allpos', K=K)
        add('r_sumiter_%s' % K, 'pub fn r_sumiter_%s(m: [%s; 3]) -> %s { m.iter().copied().sum() }' % (K, VF, VF), kind='sumiter', f='add', K=K)
        add('r_sumlazy_%s' % K, 'pub fn r_sumlazy_%s(m: [%s; 3]) -> %s { Lazy3(Some(m[0]), Some(m[1]), Some(m[2])).sum() }' % (K, VF, VF), kind='sumiter', f='add', K=K)
        add('r_prodlazy_%s' % K, 'pub fn r_prodlazy_%s(m: [%s; 3]) -> %s { Lazy3(Some(m[0]), Some(m[1]), Some(m[2])).product() }' % (K, VF, VF), kind='sumiter', f='mul', K=K)
        add('r_proditer_%s' % K, 'pub fn r_proditer_%s(m: [%s; 3]) -> %s { m.iter().copied().product() }' % (K, VF, VF), kind='sumiter', f='mul', K=K)
    return roots, meta


def atoms_of_tree(r, name):
    """leaves of a tree of binary `name` atoms"""
    if isinstance(r, Rat) and r.is_poly() and len(r.num.t) == 1:
        (m, c), = r.num.t.items()
        if c == 1 and len(m) == 1 and m[0][1] == 1:
            k, n, args = alg._ATOMS[m[0][0]]
            if k == 'fn' and n == name and len(args) == 2:
                return atoms_of_tree(args[0], name) + atoms_of_tree(args[1], name)
    return [r]


def fold_leaves(sem, tid, opname, under_div=False):
    """input-leaf names along the left spine of a raw (uninterpreted) fold term, or a description of where the shape breaks"""
    if tid is None: return 'no term'
    t = sem.terms[tid]
    if under_div:
        if t[0] == 'op' and 'Div::div' in t[1] and len(t[2]) == 2: tid = t[2][0]
        else: return 'not a quotient'
    out = []
    cur = tid
    for _ in range(200):
        t = sem.terms[cur]
        if t[0] == 'op' and opname in t[1] and len(t[2]) == 2:
            r = sem.terms[t[2][1]]
            if r[0] != 'in': return 'right operand of the fold is not a single element: %s' % (r[1] if r[0] == 'op' else r,)
            out.append(r[1]); cur = t[2][0]
        elif t[0] == 'in':
            out.append(t[1]); break
        else: return 'unexpected term %s' % (t[1],)
    return out[::-1]


def run(ctx):
    ctx.level = 'proof'
    ctx.explanation = ('Every operator form, reduction, comparison mask, map/apply/zip, constructor and conversion of every enabled vector type is interpreted '
                       'over its MIR with free symbols; output position i must be the scalar operation on the operands\' i-th elements (a scalar standing for its broadcast), '
                       'reductions must combine every element exactly once in order, boolean reductions must be "iff all/any".')
    ctx.assumptions = ['scalar operators are opaque functions of their operands (ring operations are compared as canonical polynomials)', 'SIMD (platform_intrinsics) code paths are nightly-only and excluded']
    feats = QUICK_FEATURES if ctx.tier == 'quick' else ALL_FEATURES
    kinds = vec_kinds(feats)
    roots, meta = build_roots(kinds, ctx.tier)
    sc = ctx.scan(roots, feats, extra_prelude=SC_PRELUDE)
    if sc.compile_error: return
    done = 0
    for r in roots:
        rs = sc.get(r.name); m = meta[r.name]
        if rs is None or not rs.ok: continue
        done += 1
        k = m['kind']; K = m['K']; n = vdim(K); key = 'c02/' + r.name[2:]; w = r.code
        flds = VEC_FIELDS[K][0]
        A = vsyms('a0', K)
        single = lambda: rs.only()
        try:
            if k == 'binop':
                p = single()
                Bv = [sym('a1')] * n if m['scalar'] else vsyms('a1', K)
                vec_eq(ctx, key, p.ret, [sop(m['op'], m['ty'], A[i], Bv[i]) for i in range(n)], 'alg=: out[i] = a[i] op b[i] (scalar = broadcast)', w)
            elif k == 'sv':
                p = single(); s = sym('a0'); Av = vsyms('a1', K)
                vec_eq(ctx, key, p.ret, [sop(m['op'], m['ty'], Av[i], s) for i in range(n)], 'alg=: scalar op vector (commutative operators)', w)
            elif k == 'neg':
                vec_eq(ctx, key, single().ret, [-x for x in A], 'alg=: negation per element', w)
            elif k == 'not':
                vec_eq(ctx, key, single().ret, [fn('bitnot', x) for x in A], 'alg=: bitwise not per element', w)
            elif k == 'fma':
                Bv = vsyms('a1', K); Cv = vsyms('a2', K)
                vec_eq(ctx, key, single().ret, [A[i] * Bv[i] + Cv[i] for i in range(n)], 'alg=: fused multiply-add per element', w)
            elif k == 'fmasc':
                L = lambda arg: [sym('%s.%s.0' % (arg, f)) for f in flds]
                v, a, b = L('a0'), L('a1'), L('a2')
                vec_eq(ctx, key, single().ret, [v[i] * a[i] + b[i] for i in range(n)], 'alg=: fused multiply-add per element, every owned / borrowed operand form', w)
            elif k == 'fma_s':
                vec_eq(ctx, key, single().ret, [A[i] * sym('a1') + sym('a2') for i in range(n)], 'alg=: fused multiply-add with broadcast scalars', w)
            elif k == 'red':
                p = single(); f = m['f']
                if f == 'sum': e = sum_(A)
                elif f == 'product':
                    e = C(1)
                    for x in A: e = e * x
                elif f == 'average': e = sum_(A) / C(n)
                elif f in ('min', 'max'):
                    e = A[0]
                    for x in A[1:]: e = minmax(f, e, x)
                else:
                    e = A[0]
                    for x in A[1:]: e = sop(f, 'i32', e, x)
                if f in ('sum', 'product', 'average'):
                    # shape of the fold on the uninterpreted term: the documented form e0 op e1 op e2 ... (left-associative, like Iterator::sum),
                    # which also fixes float rounding and which intermediate results exist for integers
                    tid = p.d['ret'].get('t') if isinstance(p.d.get('ret'), dict) else None
                    names = fold_leaves(rs.sem, tid, 'Mul::mul' if f == 'product' else 'Add::add', f == 'average')
                    want = ['a0.%s' % fl for fl in flds]
                    ctx.ob(key + '/left-fold', names == want, 'shape: %s combines the elements as ((e0 op e1) op e2) ... in element order (the grouping of the documented expression e0 op e1 op e2 ...)' % f, w, want, names)
                if f in ('bitand', 'bitor', 'bitxor'):
                    # associative-commutative: compare the multiset of leaves of the operator tree
                    got = sorted(str(x) for x in atoms_of_tree(p.ret, f)); want = sorted(str(x) for x in A)
                    ctx.ob(key, got == want, 'alg=: bit reduction combines every element exactly once', w, want, got)
                else:
                    ctx.same(key, p.ret, e, 'alg=: reduction over all elements', w)
            elif k == 'reduce':
                p = single()
                e = A[0]
                for x in A[1:]: e = fn('call:a1', e, x)
                ctx.same(key, p.ret, e, 'perm: user fold is a left fold in element order', w)
            elif k == 'redp':
                p = single()
                got = sorted(str(x) for x in atoms_of_tree(p.ret, 'call:' + m['f'])); want = sorted(str(x) for x in A)
                ctx.ob(key, got == want, 'dep: partial min/max reduction is a fold of partial_min/max over every element exactly once', w, want, got)
            elif k == 'rbool':
                if m['ty'] == 'bool': lits = [B('var', 'a0.%s' % f) for f in flds]
                elif 'Wrapping' in m['ty']: lits = [ne(sym('a0.%s.0' % f), C(0)) for f in flds]
                else: lits = [ne(x, C(0)) for x in A]
                if m['f'] == 'and':
                    all_or_none(ctx, key, rs, lits, 'paths: reduce_and is true iff every element is true/non-zero', w, lambda p: truth(p.ret))
                else:
                    all_or_none(ctx, key, rs, [l.neg() for l in lits], 'paths: reduce_or is false iff every element is false/zero', w, lambda p: neg_truth(p.ret))
            elif k == 'rne':
                # deprecated reduce_ne: the chained `!=` ((e0 != e1) != e2) ..., i.e. parity of the true elements; evaluated on assignments
                import itertools
                asgs = itertools.product((False, True), repeat=n) if n <= 8 else [tuple(False for _ in range(n)), tuple(True for _ in range(n))] + [tuple(j == i for j in range(n)) for i in range(n)] + [tuple(j in (i, (i * 7 + 3) % n) for j in range(n)) for i in range(n)]
                bad = None; cnt = 0
                for asg in asgs:
                    cnt += 1
                    env = {'__bool__': {'a0.%s' % f: b for f, b in zip(flds, asg)}}
                    sel = [p for p in rs.paths if p.out == 'ret' and all(c.eval(env) for c in p.conds)]
                    if len(sel) != 1: bad = (asg, '%d paths selected' % len(sel)); break
                    t = truth(sel[0].ret)
                    got = t.eval(env) if isinstance(t, B) else bool(t)
                    want = asg[0]
                    for b in asg[1:]: want = (want != b)
                    if got != want: bad = (asg, 'got %s' % got); break
                ctx.ob(key, bad is None, 'paths: reduce_ne is the left-to-right chain of != over the elements (evaluated on %s assignments)' % ('all 2^n' if n <= 8 else 'none/all/singles/pairs'), w, 'chained != on %d assignments' % cnt, '' if bad is None else 'elements %s: %s' % (''.join('1' if b else '0' for b in bad[0]), bad[1]))
            elif k == 'minmax':
                Bv = vsyms('a1', K)
                vec_eq(ctx, key, single().ret, [minmax(m['f'], A[i], Bv[i]) for i in range(n)], 'alg=: element-wise min/max', w)
            elif k == 'pminmax':
                Bv = vsyms('a1', K)
                vec_eq(ctx, key, single().ret, [fn('call:' + m['f'], A[i], Bv[i]) for i in range(n)], 'deleg: element-wise partial_min/max applies the scalar function to (a[i], b[i])', w)
            elif k == 'cmp':
                Bv = vsyms('a1', K); f = {'eq': eq, 'ne': ne, 'ge': ge, 'gt': gt, 'le': le, 'lt': lt}[m['c']]
                vec_eq(ctx, key, single().ret, [f(A[i], Bv[i]) for i in range(n)], 'ord: comparison mask element i is a[i] cmp b[i]', w)
            elif k in ('map', 'apply'):
                p = single(); ar = m['ar']
                ops = [vsyms('a%d' % q, K) for q in range(ar)]
                fname = 'call:a%d' % ar
                E = [fn(fname, *[ops[q][i] for q in range(ar)]) for i in range(n)]
                vec_eq(ctx, key, p.ret if k == 'map' else p.mut('a0'), E, 'perm: map/apply calls f on the i-th elements', w)
                calls = [p.term(e[3]) for e in p.ev('call')]
                ctx.ob(key + '/order', len(calls) == n and all(c == e for c, e in zip(calls, E)), 'trace: f is called once per element in index order', w, n, len(calls))
            elif k == 'zip':
                Bv = vsyms('a1', K)
                E = []
                for i in range(n): E += [A[i], Bv[i]]
                vec_eq(ctx, key, single().ret, E, 'perm: zip pairs the i-th elements', w)
            elif k == 'bc':
                vec_eq(ctx, key, single().ret, [sym('a0')] * n, 'perm: broadcast', w)
            elif k == 'constv':
                vec_eq(ctx, key, single().ret, [C(m['c'])] * n, 'const', w)
            elif k == 'iota':
                vec_eq(ctx, key, single().ret, [C(i) for i in range(n)], 'const: iota = 0,1,2,...', w)
            elif k == 'fromarr':
                vec_eq(ctx, key, single().ret, [sym('a0[%d]' % i) for i in range(n)], 'perm: element order kept', w)
            elif k == 'fromshort':
                vec_eq(ctx, key, single().ret, [sym('a0[%d]' % i) for i in range(n - 1)] + [C(0)], 'perm: short iterator leaves the remaining slots at Default', w)
            elif k == 'fromtup':
                vec_eq(ctx, key, single().ret, [sym('a0.%d' % i) for i in range(n)], 'perm: tuple order kept', w)
            elif k == 'ident':
                vec_eq(ctx, key, single().ret, A, 'perm: element order kept', w)
            elif k == 'count':
                vec_eq(ctx, key, single().ret, [C(n), C(n)], 'const: element count', w)
            elif k == 'hadd':
                Bv = vsyms('a1', K); cat = A + Bv
                vec_eq(ctx, key, single().ret, [cat[2 * i] + cat[2 * i + 1] for i in range(n)], 'alg=: horizontal add = sums of adjacent pairs of the concatenation', w)
            elif k == 'unary':
                f = m['f']
                from ..alg import sqrt as asqrt
                g = {'sqrt': lambda x: asqrt(x), 'rsqrt': lambda x: C(1) / asqrt(x), 'recip': lambda x: C(1) / x, 'ceil': lambda x: fn('ceil', x), 'floor': lambda x: fn('floor', x), 'round': lambda x: fn('round', x)}[f]
                vec_eq(ctx, key, single().ret, [g(x) for x in A], 'alg=: per-element function', w)
            elif k == 'anyneg':
                all_or_none(ctx, key, rs, [lt(x, C(0)).neg() for x in A], 'paths: is_any_negative is false iff no element is negative', w, lambda p: neg_truth(p.ret))
            elif k == 'allpos':
                all_or_none(ctx, key, rs, [gt(x, C(0)) for x in A], 'paths: are_all_positive iff every element is positive', w, lambda p: truth(p.ret))
            elif k == 'sumiter':
                p = single()
                vs = [[sym('a0[%d].%s' % (q, f)) for f in flds] for q in range(3)]
                if m['f'] == 'add': E = [vs[0][i] + vs[1][i] + vs[2][i] for i in range(n)]
                else: E = [vs[0][i] * vs[1][i] * vs[2][i] for i in range(n)]
                vec_eq(ctx, key, p.ret, E, 'alg=: Sum/Product over an iterator folds per element', w)
        except (AssertionError, KeyError, ValueError, TypeError, IndexError, ZeroDivisionError, AttributeError) as e:
            ctx.ob(key + '/paths', False, 'branch-free', w, 'one path', str(e))
    ctx.floor('roots analysed', done, len(roots))
    ctx.floor('vector kinds', len(kinds), 13)
    ctx.floor('API uses generated (counted at implementation time)', len(roots), 3229)
