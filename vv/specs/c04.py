"""C04 — rotation builders yield proper right-handed rotations, consistent across types."""
from ..run import Root, leaves
from ..alg import C, sym, fn, sqrt, atom_in, atom_fn, Rat
from ..shapes import *
from .c05 import hamilton, conj, rot_matrix_of_unit, qsyms

ID = 'C04'
Q = 'Quaternion<f32>'


def eps3(i, j, l):
    return {(0, 1, 2): 1, (1, 2, 0): 1, (2, 0, 1): 1, (0, 2, 1): -1, (2, 1, 0): -1, (1, 0, 2): -1}.get((i, j, l), 0)


def rodrigues(c, s, k):
    """R = c I + (1-c) k k^T + s [k]x   (counter-clockwise for a right-handed frame)"""
    R = [[None] * 3 for _ in range(3)]
    for i in range(3):
        for j in range(3):
            v = (C(1) - c) * k[i] * k[j]
            if i == j: v = v + c
            for l in range(3):
                e = eps3(i, j, l)
                if e: v = v - C(e) * s * k[l]
            R[i][j] = v
    return R


def pad(R, n):
    return [[R[i][j] if i < len(R) and j < len(R) else (C(1) if i == j else C(0)) for j in range(n)] for i in range(n)]


UNIT = {'x': [C(1), C(0), C(0)], 'y': [C(0), C(1), C(0)], 'z': [C(0), C(0), C(1)]}


def build_roots():
    roots = []; meta = {}

    def add(name, code, **m):
        roots.append(Root(name, code)); meta[name] = m

    for L in ('Rows', 'Cols'):
        for n in (3, 4):
            M = '%s%d<f32>' % (L, n); T = '%s%d' % (L, n)
            for ax in 'xyz':
                add('r_rot%s_%s' % (ax, T), 'pub fn r_rot%s_%s(a: f32) -> %s { %s::rotation_%s(a) }' % (ax, T, M, T, ax), kind='rot', ax=ax, n=n, l=L)
                add('r_rotd%s_%s' % (ax, T), 'pub fn r_rotd%s_%s(m: %s, a: f32) -> (%s, %s) { let mut k = m; k.rotate_%s(a); (m.rotated_%s(a), k) }' % (ax, T, M, M, M, ax, ax), kind='rotd', ax=ax, n=n, l=L)
                add('r_add%s_%s' % (ax, T), 'pub fn r_add%s_%s(a: f32, b: f32) -> %s { %s::rotation_%s(a) * %s::rotation_%s(b) }' % (ax, T, M, T, ax, T, ax), kind='add', ax=ax, n=n, l=L)
            add('r_rot3d_%s' % T, 'pub fn r_rot3d_%s(a: f32, v: Vec3<f32>) -> %s { %s::rotation_3d(a, v) }' % (T, M, T), kind='rot', ax='3d', n=n, l=L)
            add('r_rotd3d_%s' % T, 'pub fn r_rotd3d_%s(m: %s, a: f32, v: Vec3<f32>) -> (%s, %s) { let mut k = m; k.rotate_3d(a, v); (m.rotated_3d(a, v), k) }' % (T, M, M, M), kind='rotd', ax='3d', n=n, l=L)
            add('r_add3d_%s' % T, 'pub fn r_add3d_%s(a: f32, b: f32, v: Vec3<f32>) -> %s { %s::rotation_3d(a, v) * %s::rotation_3d(b, v) }' % (T, M, T, T), kind='add', ax='3d', n=n, l=L)
            add('r_fromq_%s' % T, 'pub fn r_fromq_%s(h: f32, v: Vec3<f32>) -> (%s, %s) { (%s::from(Quaternion::<f32>::rotation_3d(h + h, v)), %s::rotation_3d(h + h, v)) }' % (T, M, M, T, T), kind='fromq', n=n, l=L)
        M = '%s2<f32>' % L; T = '%s2' % L
        add('r_rotz_%s' % T, 'pub fn r_rotz_%s(a: f32) -> %s { %s::rotation_z(a) }' % (T, M, T), kind='rot2', l=L)
        add('r_rotdz_%s' % T, 'pub fn r_rotdz_%s(m: %s, a: f32) -> (%s, %s) { let mut k = m; k.rotate_z(a); (m.rotated_z(a), k) }' % (T, M, M, M), kind='rotd2', l=L)
        add('r_addz_%s' % T, 'pub fn r_addz_%s(a: f32, b: f32) -> %s { %s::rotation_z(a) * %s::rotation_z(b) }' % (T, M, T, T), kind='add2', l=L)
    add('r_v2rot', 'pub fn r_v2rot(v: Vec2<f32>, a: f32) -> (Vec2<f32>, Vec2<f32>) { let mut u = v; u.rotate_z(a); (v.rotated_z(a), u) }', kind='v2')
    for ax in 'xyz':
        add('r_q%s' % ax, 'pub fn r_q%s(a: f32) -> %s { Quaternion::rotation_%s(a) }' % (ax, Q, ax), kind='q', ax=ax)
        add('r_qd%s' % ax, 'pub fn r_qd%s(q: %s, a: f32) -> (%s, %s) { let mut k = q; k.rotate_%s(a); (q.rotated_%s(a), k) }' % (ax, Q, Q, Q, ax, ax), kind='qd', ax=ax)
    add('r_q3d', 'pub fn r_q3d(a: f32, v: Vec3<f32>) -> %s { Quaternion::rotation_3d(a, v) }' % Q, kind='q', ax='3d')
    add('r_qd3d', 'pub fn r_qd3d(q: %s, a: f32, v: Vec3<f32>) -> (%s, %s) { let mut k = q; k.rotate_3d(a, v); (q.rotated_3d(a, v), k) }' % (Q, Q, Q), kind='qd', ax='3d')
    add('r_qadd', 'pub fn r_qadd(a: f32, b: f32, v: Vec3<f32>) -> %s { Quaternion::rotation_3d(a + a, v) * Quaternion::rotation_3d(b + b, v) }' % Q, kind='qadd')
    add('r_qapply', 'pub fn r_qapply(h: f32, v: Vec3<f32>, p: Vec3<f32>) -> (Vec3<f32>, Vec3<f32>) { (Quaternion::rotation_3d(h + h, v) * p, Rows3::rotation_3d(h + h, v) * p) }', kind='qapply')
    return roots, meta


def axis_of(ax, arg):
    if ax == '3d':
        v = [sym('%s.%s' % (arg, c)) for c in 'xyz']
        r = sqrt(sum_(x * x for x in v))
        return v, [x / r for x in v]
    return UNIT[ax], UNIT[ax]


def proper_rotation(ctx, key, G3, raw_axis, w):
    """computed facts in Q[x,y,z,r,c,s]/(s^2+c^2-1, r^2-x^2-y^2-z^2)"""
    grid_eq(ctx, key + '/orthogonal', matmul(G3, transpose(G3)), ident(3), 'alg=: R R^T = I (computed, modulo s^2+c^2=1 and |axis|^2)', w)
    ctx.same(key + '/det', det(G3), C(1), 'alg=: det R = +1', w)
    vec_eq(ctx, key + '/fixes-axis', matvec(G3, raw_axis), raw_axis, 'alg=: R axis = axis (axis not normalised)', w)


def double_angle_map(h):
    """atoms sin(2h), cos(2h) -> 2 sin h cos h, 2 cos^2 h - 1"""
    two_h = h + h
    s, c = fn('sin', h), fn('cos', h)
    return {atom_fn('sin', (two_h,)): C(2) * s * c, atom_fn('cos', (two_h,)): C(2) * c * c - C(1)}


def run(ctx):
    ctx.level = 'proof'
    ctx.explanation = ('Every rotation constructor (Mat2/Mat3/Mat4 in both layouts, quaternion, Vec2) is interpreted with atoms c = cos a, s = sin a and a free, non-normalised axis; the abstract matrix must equal the Rodrigues matrix '
                       '(counter-clockwise, right-handed: sign of the Levi-Civita term), and the computed value itself is shown to satisfy R R^T = I, det R = 1, R axis = axis, R(a) R(b) = R(a+b) (angle-addition formulas), '
                       'rotation_z maps e_x to (cos a, sin a, 0), 3x3 = upper-left block of 4x4 with identity padding; rotated_*/rotate_* = pre-multiplication by the constructor; quaternion constructors are (k sin(a/2), cos(a/2)); '
                       'the matrix of the quaternion for (2h, axis) equals the direct matrix under the double-angle formulas. All identities hold in Q[x,y,z,r,c,s]/(s^2+c^2-1, r^2-x^2-y^2-z^2), whose rewrite system is a Groebner basis (decision procedure).')
    ctx.assumptions = ['f32 operations read as exact field operations', 'sin^2 + cos^2 = 1, sqrt(P)^2 = P, sin(2h) = 2 sin h cos h, cos(2h) = 2cos^2 h - 1, angle-addition formulas (applied on the oracle side only)']
    roots, meta = build_roots()
    sc = ctx.scan(roots, QUICK_FEATURES)
    if sc.compile_error: return
    done = 0
    blocks = {}
    for r in roots:
        rs = sc.get(r.name); m = meta[r.name]
        if rs is None or not rs.ok: continue
        done += 1
        k = m['kind']; key = 'c04/' + r.name[2:]; w = r.code
        try: p = rs.only()
        except (AssertionError, KeyError, ValueError, TypeError, IndexError, ZeroDivisionError, AttributeError) as e:
            ctx.ob(key + '/paths', False, 'branch-free', w, 'one path', str(e)); continue
        a = sym('a0'); c, s = fn('cos', a), fn('sin', a)
        if k == 'rot':
            n = m['n']; raw, kk = axis_of(m['ax'], 'a1')
            G = mgrid(p.ret, m['l'], n)
            grid_eq(ctx, key, G, pad(rodrigues(c, s, kk), n), 'alg=: rotation matrix = c I + (1-c) k k^T + s [k]x, identity padding', w)
            G3 = [row[:3] for row in G[:3]]
            proper_rotation(ctx, key, G3, raw, w)
            blocks[(m['ax'], m['l'], n)] = G
            if m['ax'] == 'z':
                vec_eq(ctx, key + '/ccw', matvec(G3, UNIT['x']), [c, s, C(0)], 'alg=: rotation about Z maps e_x to (cos a, sin a, 0)', w)
        elif k == 'rotd':
            n = m['n']; Mx = msyms('a0', m['l'], n)
            a = sym('a1'); c, s = fn('cos', a), fn('sin', a)
            raw, kk = axis_of(m['ax'], 'a2')
            E = matmul(pad(rodrigues(c, s, kk), n), Mx)
            ret, ip = p.ret
            grid_eq(ctx, key + '/returning', mgrid(ret, m['l'], n), E, 'alg=: m.rotated_*(a) = rotation_*(a) * m', w)
            grid_eq(ctx, key + '/in-place', mgrid(ip, m['l'], n), E, 'alg≡: rotate_* = rotated_*', w)
        elif k == 'add':
            n = m['n']; b = sym('a1'); cb, sb = fn('cos', b), fn('sin', b)
            raw, kk = axis_of(m['ax'], 'a2')
            E = pad(rodrigues(c * cb - s * sb, s * cb + c * sb, kk), n)
            grid_eq(ctx, key, mgrid(p.ret, m['l'], n), E, 'alg=: R(a) R(b) = R(a+b) for a common axis (cos(a+b), sin(a+b) by the addition formulas)', w)
        elif k == 'fromq':
            n = m['n']; h = sym('a0')
            fq, direct = p.ret
            mp = double_angle_map(h)
            D = [[x.subs(mp) for x in row] for row in mgrid(direct, m['l'], n)]
            grid_eq(ctx, key, mgrid(fq, m['l'], n), D, 'alg≡: matrix of Quaternion::rotation_3d(2h, axis) = Mat::rotation_3d(2h, axis) (double-angle formulas)', w)
        elif k == 'rot2':
            G = mgrid(p.ret, m['l'], 2)
            grid_eq(ctx, key, G, [[c, -s], [s, c]], 'alg=: 2D rotation [[c,-s],[s,c]]', w)
            grid_eq(ctx, key + '/orthogonal', matmul(G, transpose(G)), ident(2), 'alg=: R R^T = I', w)
            ctx.same(key + '/det', det(G), C(1), 'alg=: det R = +1', w)
            blocks[('z', m['l'], 2)] = G
        elif k == 'rotd2':
            Mx = msyms('a0', m['l'], 2); a = sym('a1'); c, s = fn('cos', a), fn('sin', a)
            E = matmul([[c, -s], [s, c]], Mx); ret, ip = p.ret
            grid_eq(ctx, key + '/returning', mgrid(ret, m['l'], 2), E, 'alg=: m.rotated_z(a) = rotation_z(a) * m', w)
            grid_eq(ctx, key + '/in-place', mgrid(ip, m['l'], 2), E, 'alg≡: rotate_z = rotated_z', w)
        elif k == 'add2':
            b = sym('a1'); cb, sb = fn('cos', b), fn('sin', b)
            cc, ss = c * cb - s * sb, s * cb + c * sb
            grid_eq(ctx, key, mgrid(p.ret, m['l'], 2), [[cc, -ss], [ss, cc]], 'alg=: R(a) R(b) = R(a+b)', w)
        elif k == 'v2':
            v = [sym('a0.x'), sym('a0.y')]; a = sym('a1'); c, s = fn('cos', a), fn('sin', a)
            E = matvec([[c, -s], [s, c]], v); ret, ip = p.ret
            vec_eq(ctx, key + '/returning', ret, E, 'alg=: Vec2::rotated_z(v, a) = rotation_z(a) * v', w)
            vec_eq(ctx, key + '/in-place', ip, E, 'alg≡: rotate_z = rotated_z', w)
        elif k == 'q':
            half = a / C(2); raw, kk = axis_of(m['ax'], 'a1')
            sh, ch = fn('sin', half), fn('cos', half)
            vec_eq(ctx, key, p.ret, [x * sh for x in kk] + [ch], 'alg=: quaternion rotation = (k sin(a/2), cos(a/2)), axis normalised', w)
        elif k == 'qd':
            q0 = qsyms('a0'); a = sym('a1'); half = a / C(2); raw, kk = axis_of(m['ax'], 'a2')
            rq = [x * fn('sin', half) for x in kk] + [fn('cos', half)]
            E = hamilton(rq, q0); ret, ip = p.ret
            vec_eq(ctx, key + '/returning', ret, E, 'alg=: q.rotated_*(a) = rotation_*(a) * q (Hamilton product)', w)
            vec_eq(ctx, key + '/in-place', ip, E, 'alg≡: rotate_* = rotated_*', w)
        elif k == 'qadd':
            b = sym('a1'); raw, kk = axis_of('3d', 'a2')
            sa, ca, sb, cb = fn('sin', a), fn('cos', a), fn('sin', b), fn('cos', b)
            vec_eq(ctx, key, p.ret, [x * (sa * cb + ca * sb) for x in kk] + [ca * cb - sa * sb], 'alg=: q(2a) q(2b) = q(2a+2b) for a common axis (half-angle addition formulas)', w)
        elif k == 'qapply':
            h = sym('a0'); qa, ma = p.ret
            mp = double_angle_map(h)
            vec_eq(ctx, key, qa, [x.subs(mp) for x in leaves(ma)], 'alg≡: quaternion rotation applied to a point = matrix rotation applied to it', w)
    # 3x3 is the upper-left block of 4x4; Mat2 rotation_z is the upper-left block of Mat3 rotation_z
    for L in ('Rows', 'Cols'):
        for ax in ('x', 'y', 'z', '3d'):
            a3 = blocks.get((ax, L, 3)); a4 = blocks.get((ax, L, 4))
            if a3 and a4: grid_eq(ctx, 'c04/block/%s_%s' % (ax, L), a4, pad(a3, 4), 'alg≡: Mat4 rotation = Mat3 rotation with identity padding', 'rotation_%s' % ax)
        a2 = blocks.get(('z', L, 2)); a3 = blocks.get(('z', L, 3))
        if a2 and a3: grid_eq(ctx, 'c04/block/z2_%s' % L, a3, pad(a2, 3), 'alg≡: Mat3 rotation_z = Mat2 rotation_z with identity padding', 'rotation_z')
        r3 = blocks.get(('3d', 'Rows', 3)); c3 = blocks.get(('3d', 'Cols', 3))
    ctx.floor('roots analysed', done, len(roots))
    ctx.floor('obligations', ctx.obligations, 900)
