"""C10 — viewport projection, unprojection and the picking matrix are consistent."""
from ..run import Root, leaves
from ..alg import C, sym, fn, Rat, atom_in
from ..sem import B, gt, le
from ..shapes import *
from ..rules import feasible_paths, nonconst_conds, cond_leaves

ID = 'C10'


def build_roots():
    roots = []; meta = {}

    def add(name, code, max_paths=16, opaque=(), **m):
        roots.append(Root(name, code, max_paths=max_paths, opaque=opaque)); meta[name] = m

    for L in ('Rows', 'Cols'):
        M = '%s4<f32>' % L
        for fl in ('no', 'zo'):
            add('r_w2v_%s_%s' % (fl, L), 'pub fn r_w2v_%s_%s(p: Vec3<f32>, mv: %s, pr: %s, vp: Rect<f32, f32>) -> Vec3<f32> { %s4::world_to_viewport_%s(p, mv, pr, vp) }' % (fl, L, M, M, L, fl), kind='w2v', fl=fl, l=L)
            add('r_v2w_%s_%s' % (fl, L), 'pub fn r_v2w_%s_%s(r: Vec3<f32>, mv: %s, pr: %s, vp: Rect<f32, f32>) -> Vec3<f32> { %s4::viewport_to_world_%s(r, mv, pr, vp) }' % (fl, L, M, M, L, fl), opaque=['*Mat4*::inverted'], kind='v2w', fl=fl, l=L)
            add('r_rt_%s_%s' % (fl, L), 'pub fn r_rt_%s_%s(p: Vec3<f32>, pr: %s, vp: Rect<f32, f32>) -> Vec3<f32> { %s4::viewport_to_world_%s(%s4::world_to_viewport_%s(p, %s4::identity(), pr, vp), %s4::identity(), pr, vp) }' % (fl, L, M, L, fl, L, fl, L, L), kind='rt', fl=fl, l=L, max_paths=8)
        # the point parameter is `impl Into<Vec3>`: the (Vec2, depth) tuple form (cursor position + depth) must denote the same point
        for fl in ('no', 'zo'):
            add('r_w2vt_%s_%s' % (fl, L), 'pub fn r_w2vt_%s_%s(p: (Vec2<f32>, f32), mv: %s, pr: %s, vp: Rect<f32, f32>) -> Vec3<f32> { %s4::world_to_viewport_%s(p, mv, pr, vp) }' % (fl, L, M, M, L, fl), kind='w2v', fl=fl, l=L, tup=True)
            add('r_v2wt_%s_%s' % (fl, L), 'pub fn r_v2wt_%s_%s(r: (Vec2<f32>, f32), mv: %s, pr: %s, vp: Rect<f32, f32>) -> Vec3<f32> { %s4::viewport_to_world_%s(r, mv, pr, vp) }' % (fl, L, M, M, L, fl), opaque=['*Mat4*::inverted'], kind='v2w', fl=fl, l=L, tup=True)
        add('r_pick_%s' % L, 'pub fn r_pick_%s(c: Vec2<f32>, d: Vec2<f32>, vp: Rect<f32, f32>) -> %s { %s4::picking_region(c, d, vp) }' % (L, M, L), kind='pick', l=L, max_paths=400)
    return roots, meta


def run(ctx):
    ctx.level = 'proof'
    ctx.explanation = ('world_to_viewport_{no,zo}: the computed result (32 matrix symbols, point, viewport) equals the perspective-divided clip position P(MV p) mapped by x -> (x/2+1/2) w + x0 (depth /2+1/2 resp. unchanged). '
                       'viewport_to_world_{zo,no}: with the matrix inverse summarised, the result is homogenise(Inv(P*MV) n) with n the exact inverse affine map of the viewport mapping, operand order proj*modelview; '
                       'the round trip unproject(project(p)) = p is computed as a rational identity (general 4x4 projection, identity model-view, inverse interpreted for real). '
                       'picking_region: the abstract matrix times the corners of the window rectangle expressed in clip coordinates equals (+-1,+-1); panics exactly on non-positive size.')
    ctx.assumptions = ['exact arithmetic; invertible matrices, non-zero viewport size and clip w (the identities are rational-function identities)']
    roots, meta = build_roots()
    sc = ctx.scan(roots, QUICK_FEATURES)
    if sc.compile_error: return
    done = 0
    # the symbolic round trip is the expensive rule (it goes through the real general inverse): it is evaluated last, and only where the
    # projection / unprojection formulas of the same layout and depth flavour hold -- where they do not, cancellation fails and the
    # rational functions explode (a seeded change made the check run for half an hour to report what the formula rules had said in a minute)
    bad = set()
    for r in sorted(roots, key=lambda r: meta[r.name]['kind'] == 'rt'):
        rs = sc.get(r.name); m = meta[r.name]
        if rs is None or not rs.ok: continue
        done += 1
        k = m['kind']; key = 'c10/' + r.name[2:]; w = r.code; L = m['l']
        nv0 = len(ctx.violations)
        vx, vy, vw, vh = (sym('a3.' + n) for n in 'xywh') if k in ('w2v', 'v2w') else (sym('a2.' + n) for n in 'xywh')
        PX = [sym('a0.0.x'), sym('a0.0.y'), sym('a0.1')] if m.get('tup') else [sym('a0.x'), sym('a0.y'), sym('a0.z')]
        try:
            if k == 'w2v':
                p = rs.only()
                MV = msyms('a1', L, 4); P = msyms('a2', L, 4)
                pt = PX + [C(1)]
                clip = matvec(P, matvec(MV, pt))
                ndc = [c / clip[3] for c in clip[:3]]
                half = C(1) / C(2)
                ex = (ndc[0] * half + half) * vw + vx; ey = (ndc[1] * half + half) * vh + vy
                ez = ndc[2] * half + half if m['fl'] == 'no' else ndc[2]
                vec_eq(ctx, key, p.ret, [ex, ey, ez], 'alg=: viewport position = viewport map of the perspective-divided clip position proj*(modelview*p)', w)
            elif k == 'v2w':
                p = rs.only()
                calls = p.ev('call')
                if not ctx.ob(key + '/one-inverse', len(calls) == 1 and calls[0][1].endswith('::inverted'), 'deleg: exactly one matrix inversion', w, 1, [c[1] for c in calls]): continue
                MV = msyms('a1', L, 4); P = msyms('a2', L, 4)
                PM = matmul(P, MV)
                args = [p.term(t) for t in calls[0][2]]
                G = mgrid(args, L, 4)
                grid_eq(ctx, key + '/inverts-proj*modelview', G, PM, 'deleg: the inverted matrix is proj * modelview (in this order)', w)
                name = calls[0][1]
                inv_l = [fn('ret:%d' % i, fn('call:' + name, *args)) for i in range(16)]
                Inv = mgrid(inv_l, L, 4)
                rx, ry, rz = PX
                n = [C(2) * (rx - vx) / vw - C(1), C(2) * (ry - vy) / vh - C(1), (C(2) * rz - C(1)) if m['fl'] == 'no' else rz, C(1)]
                o = matvec(Inv, n)
                vec_eq(ctx, key, p.ret, [o[i] / o[3] for i in range(3)], 'alg=: unprojection = homogenise(Inverse * n), n = inverse viewport map of the window position (depth 2z-1 resp. z)', w)
            elif k == 'rt':
                if (L, m['fl']) in bad:
                    ctx.viol(key + '/not-evaluated', rule='alg=: unproject(project(p)) = p; not evaluated because the projection / unprojection formula of this layout and depth flavour is already violated', where=w, expected='formulas hold', found='see the w2v / v2w violations of %s %s' % (L, m['fl'])); continue
                rets = [q for q in feasible_paths(rs) if q.out == 'ret']
                if not ctx.ob(key + '/paths', len(rets) >= 1, 'paths', w, '>=1 returning path', len(rets)): continue
                for i, q in enumerate(rets):
                    vec_eq(ctx, '%s/path%d' % (key, i), q.ret, [sym('a0.x'), sym('a0.y'), sym('a0.z')], 'alg=: unproject(project(p)) = p as a rational identity (general projection matrix, inverse computed by the real inverted())', w)
            elif k == 'pick':
                cx, cy, dx, dy = sym('a0.x'), sym('a0.y'), sym('a1.x'), sym('a1.y')
                paths = feasible_paths(rs)
                rets = [q for q in paths if q.out == 'ret']; pans = [q for q in paths if q.out != 'ret']
                ctx.ob(key + '/one-returning-path', len(rets) == 1, 'paths', w, 1, len(rets))
                if len(rets) != 1: continue
                q = rets[0]
                conds = nonconst_conds(q)
                ok = len(conds) == 2 and any(c == gt(dx, C(0)) for c in conds) and any(c == gt(dy, C(0)) for c in conds)
                ctx.ob(key + '/domain', ok, 'panic-iff: returns exactly when both sizes are positive', w, ['dx > 0', 'dy > 0'], [str(c) for c in conds])
                okp = len(pans) == 2 and all(any(c == le(dx, C(0)) or c == le(dy, C(0)) for c in nonconst_conds(pp)) for pp in pans)
                ctx.ob(key + '/panics', okp, 'panic-iff: panics when a size is not positive', w, 2, [(pp.panic, [str(c) for c in pp.conds]) for pp in pans])
                G = mgrid(q.ret, L, 4)
                z = sym('z')
                for sx, nx in ((C(-1), 'left'), (C(1), 'right')):
                    for sy, ny in ((C(-1), 'bottom'), (C(1), 'top')):
                        wx = cx + sx * dx / C(2); wy = cy + sy * dy / C(2)             # window-space corner of the picking rectangle
                        clipx = C(2) * (wx - vx) / vw - C(1); clipy = C(2) * (wy - vy) / vh - C(1)   # the same corner in clip coordinates
                        o = matvec(G, [clipx, clipy, z, C(1)])
                        ck = '%s/%s-%s' % (key, nx, ny)
                        ctx.same(ck + '/x', o[0] / o[3], sx, 'alg=: the picking matrix maps the window rectangle (in clip coordinates) onto the clip square: x = -1/+1', w)
                        ctx.same(ck + '/y', o[1] / o[3], sy, 'alg=: the picking matrix maps the window rectangle (in clip coordinates) onto the clip square: y = -1/+1', w)
                        ctx.same(ck + '/z', o[2] / o[3], z, 'alg=: depth unchanged', w)
        except (AssertionError, KeyError, ValueError, TypeError, IndexError, ZeroDivisionError, AttributeError) as e:
            ctx.ob(key + '/paths', False, 'path structure', w, 'analysable', str(e))
        if k in ('w2v', 'v2w') and len(ctx.violations) > nv0: bad.add((L, m['fl']))
    ctx.floor('roots analysed', done, len(roots))
    ctx.floor('API uses generated (counted at implementation time)', len(roots), 22)
