"""C07 — affine builders and Transform act on points as defined and chain in call order."""
import itertools
from ..run import Root, leaves
from ..alg import C, sym, fn, sqrt
from ..shapes import *
from .c04 import rodrigues, pad, UNIT
from .c05 import unit_subst, rot_matrix_of_unit

ID = 'C07'


def vsy(arg, n): return [sym('%s.%s' % (arg, c)) for c in 'xyzw'[:n]]


def O(n): return [[C(0)] * n for _ in range(n)]


def translation(n, v):
    M = ident(n)
    for i, x in enumerate(v): M[i][n - 1] = x
    return M


def scaling(n, v):
    M = ident(n)
    for i, x in enumerate(v): M[i][i] = x
    return M


def rot(n, ax, a, axis=None):
    c, s = fn('cos', a), fn('sin', a)
    if n == 2: return [[c, -s], [s, c]]
    if ax == '3d':
        r = sqrt(sum_(x * x for x in axis)); k = [x / r for x in axis]
    else: k = UNIT[ax]
    return pad(rodrigues(c, s, k), n)


# builders per matrix size: name -> (in-place name, [param types], oracle(n, params as symbol lists))
def builders(n):
    b = {}
    if n == 4:
        b['translated_2d'] = ('translate_2d', ['Vec2<f32>'], lambda p: translation(4, vsy(p[0], 2)))
        b['translated_3d'] = ('translate_3d', ['Vec3<f32>'], lambda p: translation(4, vsy(p[0], 3)))
        b['scaled_3d'] = ('scale_3d', ['Vec3<f32>'], lambda p: scaling(4, vsy(p[0], 3)))
    if n == 3:
        b['translated_2d'] = ('translate_2d', ['Vec2<f32>'], lambda p: translation(3, vsy(p[0], 2)))
        b['scaled_3d'] = ('scale_3d', ['Vec3<f32>'], lambda p: scaling(3, vsy(p[0], 3)))
    if n in (3, 4):
        for ax in 'xyz':
            b['rotated_' + ax] = ('rotate_' + ax, ['f32'], (lambda ax: lambda p: rot(n, ax, sym(p[0])))(ax))
        b['rotated_3d'] = ('rotate_3d', ['f32', 'Vec3<f32>'], lambda p: rot(n, '3d', sym(p[0]), vsy(p[1], 3)))
    if n == 2:
        b['scaled_2d'] = ('scale_2d', ['Vec2<f32>'], lambda p: scaling(2, vsy(p[0], 2)))
        b['sheared_x'] = ('shear_x', ['f32'], lambda p: [[C(1), sym(p[0])], [C(0), C(1)]])
        b['sheared_y'] = ('shear_y', ['f32'], lambda p: [[C(1), C(0)], [sym(p[0]), C(1)]])
        b['rotated_z'] = ('rotate_z', ['f32'], lambda p: rot(2, 'z', sym(p[0])))
    return b


CTORS = {
    4: [('translation_2d', 'Vec2<f32>', lambda: translation(4, vsy('a0', 2))), ('translation_3d', 'Vec3<f32>', lambda: translation(4, vsy('a0', 3))), ('scaling_3d', 'Vec3<f32>', lambda: scaling(4, vsy('a0', 3)))],
    3: [('translation_2d', 'Vec2<f32>', lambda: translation(3, vsy('a0', 2))), ('scaling_3d', 'Vec3<f32>', lambda: scaling(3, vsy('a0', 3)))],
    2: [('scaling_2d', 'Vec2<f32>', lambda: scaling(2, vsy('a0', 2))), ('shearing_x', 'f32', lambda: [[C(1), sym('a0')], [C(0), C(1)]]), ('shearing_y', 'f32', lambda: [[C(1), C(0)], [sym('a0'), C(1)]])],
}


def build_roots(tier):
    roots = []; meta = {}

    def add(name, code, **m):
        roots.append(Root(name, code)); meta[name] = m

    for L in ('Rows', 'Cols'):
        for n in (2, 3, 4):
            T = '%s%d' % (L, n); M = T + '<f32>'
            for cname, pty, orc in CTORS[n]:
                add('r_ctor_%s_%s' % (cname, T), 'pub fn r_ctor_%s_%s(v: %s) -> %s { %s::%s(v) }' % (cname, T, pty, M, T, cname), kind='ctor', n=n, l=L, orc=orc, cname=cname)
            bs = builders(n)
            for bname, (ip, ptys, orc) in bs.items():
                params = ', '.join('p%d: %s' % (i, t) for i, t in enumerate(ptys)); args = ', '.join('p%d' % i for i in range(len(ptys)))
                add('r_b_%s_%s' % (bname, T), 'pub fn r_b_%s_%s(m: %s, %s) -> (%s, %s) { let mut k = m; k.%s(%s); (m.%s(%s), k) }' % (bname, T, M, params, M, M, ip, args, bname, args), kind='builder', n=n, l=L, orc=orc, np=len(ptys), bname=bname)
            # chains
            maxlen = 2 if tier == 'quick' else 3
            names = sorted(bs)
            for ln in range(2, maxlen + 1):
                combos = list(itertools.product(names, repeat=ln))
                if tier == 'quick' and L == 'Cols': combos = combos[::3]      # column-major: every third chain in quick (all in thorough)
                for combo in combos:
                    ps = []; calls = []; idx = 1; orcs = []
                    for bn in combo:
                        ip, ptys, orc = bs[bn]
                        mine = []
                        for t in ptys:
                            ps.append('a%d: %s' % (idx, t)); mine.append('a%d' % idx); idx += 1
                        calls.append('.%s(%s)' % (bn, ', '.join(mine))); orcs.append((orc, mine))
                    nm = 'r_chain_%s_%s' % (T, '_'.join(x.replace('ated', '').replace('aled', 'al').replace('eared', 'ear') for x in combo))
                    add(nm, 'pub fn %s(m: %s, %s) -> %s { m%s }' % (nm, M, ', '.join(ps), M, ''.join(calls)), kind='chain', n=n, l=L, orcs=orcs, combo=combo)
        # point / direction helpers
        add('r_mulpoint_%s' % L, 'pub fn r_mulpoint_%s(m: %s4<f32>, p: Vec3<f32>, q: Vec4<f32>) -> (Vec3<f32>, Vec4<f32>, Vec3<f32>, Vec4<f32>) { (m.mul_point(p), m.mul_point(q), m.mul_direction(p), m.mul_direction(q)) }' % (L, L), kind='mulpoint', l=L)
        add('r_mulpoint2d_%s' % L, 'pub fn r_mulpoint2d_%s(m: %s3<f32>, p: Vec2<f32>, q: Vec3<f32>) -> (Vec2<f32>, Vec3<f32>, Vec2<f32>, Vec3<f32>) { (m.mul_point_2d(p), m.mul_point_2d(q), m.mul_direction_2d(p), m.mul_direction_2d(q)) }' % (L, L), kind='mulpoint2d', l=L)
        add('r_xform_%s' % L, 'pub fn r_xform_%s(t: Transform<f32,f32,f32>) -> %s4<f32> { %s4::from(t) }' % (L, L, L), kind='xform', l=L)
        add('r_xformdef_%s' % L, 'pub fn r_xformdef_%s() -> (%s4<f32>, Transform<f32,f32,f32>) { (%s4::from(Transform::default()), Transform::default()) }' % (L, L, L), kind='xformdef', l=L)
    return roots, meta


def run(ctx):
    ctx.level = 'proof'
    ctx.explanation = ('Translation / scaling / shear constructors (Mat2/3/4, both layouts) are interpreted and compared entrywise with the defining matrices (translation in the last column) and, applied to a point or direction '
                       '(w = 1 / 0), with p+v, s.p, (x+ky, y); every *_ed builder and its in-place twin must equal constructor * self; every chain of builders (length 2 in quick, up to 3 in thorough; 7/6/4 builders per size) must '
                       'equal the product of the constructors in reverse call order times the receiver, so the steps apply to a point in call order; Mat4::from(Transform) is compared with T(position) R(q) S(scale) for unit q.')
    ctx.assumptions = ['f32 operations read as exact field operations', 'Transform orientation is a unit quaternion (q = p/|p|)']
    roots, meta = build_roots(ctx.tier)
    sc = ctx.scan(roots, QUICK_FEATURES)
    if sc.compile_error: return
    done = 0; chains = 0
    for r in roots:
        rs = sc.get(r.name); m = meta[r.name]
        if rs is None or not rs.ok: continue
        done += 1
        k = m['kind']; key = 'c07/' + r.name[2:]; w = r.code
        try: p = rs.only()
        except (AssertionError, KeyError, ValueError, TypeError, IndexError, ZeroDivisionError, AttributeError) as e:
            ctx.ob(key + '/paths', False, 'branch-free', w, 'one path', str(e)); continue
        if k == 'ctor':
            n = m['n']; E = m['orc'](); G = mgrid(p.ret, m['l'], n)
            grid_eq(ctx, key, G, E, 'alg=: constructor matrix (translation in the last column / scale on the diagonal / shear off-diagonal)', w)
            # action on a point and on a direction, from the definition
            pt = [sym('pt.' + c) for c in 'xyz'[:n - 1]] if n > 2 else [sym('pt.x'), sym('pt.y')]
            if n == 2:
                got = matvec(G, pt)
                if m['cname'] == 'scaling_2d': exp = [sym('a0.x') * pt[0], sym('a0.y') * pt[1]]
                elif m['cname'] == 'shearing_x': exp = [pt[0] + sym('a0') * pt[1], pt[1]]
                else: exp = [pt[0], pt[1] + sym('a0') * pt[0]]
                vec_eq(ctx, key + '/acts', got, exp, 'alg=: scaling multiplies per axis; shear adds k times the other coordinate', w)
            else:
                gp = matvec(G, pt + [C(1)])[:n - 1]; gd = matvec(G, pt + [C(0)])[:n - 1]
                if m['cname'].startswith('translation'):
                    v = vsy('a0', 2 if m['cname'].endswith('2d') else 3)
                    v = (v + [C(0)] * 3)[:n - 1]
                    vec_eq(ctx, key + '/point', gp, [a + b for a, b in zip(pt, v)], 'alg=: translation moves points by v', w)
                    vec_eq(ctx, key + '/direction', gd, pt, 'alg=: translation leaves directions alone', w)
                else:
                    v = vsy('a0', 3)
                    if n == 3:
                        vec_eq(ctx, key + '/acts', matvec(G, [sym('pt.x'), sym('pt.y'), sym('pt.z')]), [v[0] * sym('pt.x'), v[1] * sym('pt.y'), v[2] * sym('pt.z')], 'alg=: scaling multiplies per axis', w)
                    else:
                        vec_eq(ctx, key + '/point', gp, [a * b for a, b in zip(pt, v)], 'alg=: scaling multiplies per axis', w)
        elif k == 'builder':
            n = m['n']; Mx = msyms('a0', m['l'], n)
            E = matmul(m['orc'](['a%d' % (i + 1) for i in range(m['np'])]), Mx)
            ret, ip = p.ret
            grid_eq(ctx, key + '/returning', mgrid(ret, m['l'], n), E, 'alg=: m.%s(..) = constructor(..) * m (pre-multiplication)' % m['bname'], w)
            grid_eq(ctx, key + '/in-place', mgrid(ip, m['l'], n), E, 'alg≡: in-place form = returning form', w)
        elif k == 'chain':
            n = m['n']; E = msyms('a0', m['l'], n)
            for orc, mine in m['orcs']: E = matmul(orc(mine), E)
            chains += 1
            grid_eq(ctx, key, mgrid(p.ret, m['l'], n), E, 'alg=: chain = product of constructors in reverse call order * m (steps apply to a point in call order)', w)
        elif k == 'mulpoint':
            Mx = msyms('a0', m['l'], 4); p3 = vsy('a1', 3); q4 = vsy('a2', 4)
            a, b, c, d = p.ret
            vec_eq(ctx, key + '/point/Vec3', a, matvec(Mx, p3 + [C(1)])[:3], 'alg=: mul_point = (M (p,1)).xyz', w)
            vec_eq(ctx, key + '/point/Vec4', b, matvec(Mx, q4[:3] + [C(1)]), 'alg=: mul_point on Vec4 uses w = 1', w)
            vec_eq(ctx, key + '/direction/Vec3', c, matvec(Mx, p3 + [C(0)])[:3], 'alg=: mul_direction = (M (d,0)).xyz', w)
            vec_eq(ctx, key + '/direction/Vec4', d, matvec(Mx, q4[:3] + [C(0)]), 'alg=: mul_direction on Vec4 uses w = 0', w)
        elif k == 'mulpoint2d':
            Mx = msyms('a0', m['l'], 3); p2 = vsy('a1', 2); q3 = vsy('a2', 3)
            a, b, c, d = p.ret
            vec_eq(ctx, key + '/point/Vec2', a, matvec(Mx, p2 + [C(1)])[:2], 'alg=: mul_point_2d = (M (p,1)).xy', w)
            vec_eq(ctx, key + '/point/Vec3', b, matvec(Mx, q3[:2] + [C(1)]), 'alg=: mul_point_2d on Vec3 uses z = 1', w)
            vec_eq(ctx, key + '/direction/Vec2', c, matvec(Mx, p2 + [C(0)])[:2], 'alg=: mul_direction_2d = (M (d,0)).xy', w)
            vec_eq(ctx, key + '/direction/Vec3', d, matvec(Mx, q3[:2] + [C(0)]), 'alg=: mul_direction_2d on Vec3 uses z = 0', w)
        elif k == 'xform':
            pos = vsy('a0.position', 3); sc3 = vsy('a0.scale', 3)
            mp, qu = unit_subst('a0.orientation')
            G = [[x.subs(mp) for x in row] for row in mgrid(p.ret, m['l'], 4)]
            R = rot_matrix_of_unit(qu)
            # translation part and last row
            vec_eq(ctx, key + '/origin', [G[i][3] for i in range(3)], pos, 'alg=: the origin maps to position', w)
            vec_eq(ctx, key + '/last-row', G[3], [C(0), C(0), C(0), C(1)], 'const: affine last row', w)
            lin = [row[:3] for row in G[:3]]
            RS = matmul(R, scaling(3, sc3)); SR = matmul(scaling(3, sc3), R)
            is_rs = all(lin[i][j] == RS[i][j] for i in range(3) for j in range(3))
            if is_rs:
                ctx.ob(key + '/linear-part', True, 'alg=: linear part = R(orientation) * diag(scale): p -> position + orientation*(scale . p)', w)
            else:
                is_sr = all(lin[i][j] == SR[i][j] for i in range(3) for j in range(3))
                what = 'found=diag(scale)*R(orientation)' if is_sr else 'found=other'
                ctx.ob('%s/linear-part/%s' % (key, what), False, 'alg=: linear part = R(orientation) * diag(scale): p -> position + orientation*(scale . p)', w, 'R*S', 'S*R: p -> position + scale . (orientation*p)' if is_sr else str(lin[0][0]))
        elif k == 'xformdef':
            G, t = p.ret
            grid_eq(ctx, key + '/matrix', mgrid(G, m['l'], 4), ident(4), 'const: default Transform converts to the identity map', w)
            vec_eq(ctx, key + '/fields', t, [C(0)] * 3 + [C(0), C(0), C(0), C(1)] + [C(1)] * 3, 'const: default Transform = (0, identity, 1)', w)
    ctx.counts['chains'] = chains
    ctx.floor('roots analysed', done, len(roots))
    ctx.floor('builder chains', chains, 130 if ctx.tier == 'quick' else 1100)
