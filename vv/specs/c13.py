"""C13 — axis-aligned boxes and rectangles behave as the point sets they denote."""
import itertools
from fractions import Fraction
from ..run import Root, leaves, Ptr, Enum
from ..alg import C, sym, fn, Rat, atom_in
from ..sem import B, minmax, lt, le, gt, ge
from ..shapes import *
from ..rules import cond_leaves
from ..ordeval import CompiledRoot, wo, mkenv, value, truthv
from .. import alg

ID = 'C13'
AX = {2: ['x', 'y'], 3: ['x', 'y', 'z']}
EX = {2: ['w', 'h'], 3: ['w', 'h', 'd']}
BOX = {2: 'Aabr', 3: 'Aabb'}
RECT = {2: 'Rect', 3: 'Rect3'}
VEC = {2: 'Vec2', 3: 'Vec3'}
EXT = {2: 'Extent2', 3: 'Extent3'}
SUF = {2: 'aabr', 3: 'aabb'}
RSUF = {2: 'rect', 3: 'rect3'}


def build_roots():
    roots = []; meta = {}

    def add(name, code, max_paths=900, opaque=(), **m):
        roots.append(Root(name, code, max_paths=max_paths, opaque=opaque)); meta[name] = m

    # projected_point goes through Clamp, which has one impl per primitive type (macro arms): every arm is analysed
    for d in (2, 3):
        for ty in ('i8', 'i16', 'i64', 'u8', 'u16', 'u32', 'u64', 'f64'):
            BT = '%s<%s>' % (BOX[d], ty); VT = '%s<%s>' % (VEC[d], ty); t = '%s_%d' % (ty, d)
            add('r_box_projected_' + t, 'pub fn r_box_projected_%s(a: %s, p: %s) -> %s { a.projected_point(p) }' % (t, BT, VT, VT), kind='projected', d=d, ty=ty, shape='box')
    for d in (2, 3):
        Bx, R, V, E, s, rs = BOX[d], RECT[d], VEC[d], EXT[d], SUF[d], RSUF[d]
        for ty in ('i32', 'f32'):
            BT = '%s<%s>' % (Bx, ty); VT = '%s<%s>' % (V, ty); RT = '%s<%s,%s>' % (R, ty, ty); t = '%s_%d' % (ty, d)
            for shape, ST, conv in (('box', BT, ''), ('rect', RT, '')):
                sfx = s if shape == 'box' else rs
                pre = 'r_%s_' % shape
                add(pre + 'contains_point_' + t, 'pub fn %scontains_point_%s(a: %s, p: %s) -> bool { a.contains_point(p) }' % (pre, t, ST, VT), kind='contains_point', d=d, ty=ty, shape=shape)
                add(pre + 'contains_' + t, 'pub fn %scontains_%s(a: %s, b: %s) -> bool { a.contains_%s(b) }' % (pre, t, ST, ST, sfx), kind='contains', d=d, ty=ty, shape=shape)
                add(pre + 'collides_' + t, 'pub fn %scollides_%s(a: %s, b: %s) -> bool { a.collides_with_%s(b) }' % (pre, t, ST, ST, sfx), kind='collides', d=d, ty=ty, shape=shape)
                add(pre + 'union_' + t, 'pub fn %sunion_%s(a: %s, b: %s) -> %s { a.union(b) }' % (pre, t, ST, ST, ST), kind='union', d=d, ty=ty, shape=shape)
                add(pre + 'intersection_' + t, 'pub fn %sintersection_%s(a: %s, b: %s) -> %s { a.intersection(b) }' % (pre, t, ST, ST, ST), kind='intersection', d=d, ty=ty, shape=shape)
                add(pre + 'union_inplace_' + t, 'pub fn %sunion_inplace_%s(a: %s, b: %s) -> %s { let mut a = a; a.expand_to_contain(b); a }' % (pre, t, ST, ST, ST), kind='union', d=d, ty=ty, shape=shape, twin='union')
                add(pre + 'intersection_inplace_' + t, 'pub fn %sintersection_inplace_%s(a: %s, b: %s) -> %s { let mut a = a; a.intersect(b); a }' % (pre, t, ST, ST, ST), kind='intersection', d=d, ty=ty, shape=shape, twin='intersection')
                add(pre + 'expanded_' + t, 'pub fn %sexpanded_%s(a: %s, p: %s) -> %s { a.expanded_to_contain_point(p) }' % (pre, t, ST, VT, ST), kind='expanded', d=d, ty=ty, shape=shape)
                add(pre + 'expanded_inplace_' + t, 'pub fn %sexpanded_inplace_%s(a: %s, p: %s) -> %s { let mut a = a; a.expand_to_contain_point(p); a }' % (pre, t, ST, VT, ST), kind='expanded', d=d, ty=ty, shape=shape, twin='expanded')
                for ax in AX[d]:
                    add(pre + 'split_%s_%s' % (ax, t), 'pub fn %ssplit_%s_%s(a: %s, sp: %s) -> [%s; 2] { a.split_at_%s(sp) }' % (pre, ax, t, ST, ty, ST, ax), kind='split', ax=ax, d=d, ty=ty, shape=shape)
                if ty == 'i32':
                    add(pre + 'center_' + t, 'pub fn %scenter_%s(a: %s) -> %s { a.center() }' % (pre, t, ST, VT), kind='icenter', d=d, ty=ty, shape=shape)
                if ty == 'f32':
                    add(pre + 'center_' + t, 'pub fn %scenter_%s(a: %s) -> %s { a.center() }' % (pre, t, ST, VT), kind='center', d=d, ty=ty, shape=shape)
                    add(pre + 'colvec_' + t, 'pub fn %scolvec_%s(a: %s, b: %s) -> %s { a.collision_vector_with_%s(b) }' % (pre, t, ST, ST, VT, sfx), kind='colvec', d=d, ty=ty, shape=shape)
            # box-only API
            add('r_box_is_valid_' + t, 'pub fn r_box_is_valid_%s(a: %s) -> bool { a.is_valid() }' % (t, BT), kind='is_valid', d=d, ty=ty, shape='box')
            add('r_box_made_valid_' + t, 'pub fn r_box_made_valid_%s(a: %s) -> %s { a.made_valid() }' % (t, BT, BT), kind='made_valid', d=d, ty=ty, shape='box')
            add('r_box_make_valid_' + t, 'pub fn r_box_make_valid_%s(a: %s) -> %s { let mut a = a; a.make_valid(); a }' % (t, BT, BT), kind='made_valid', d=d, ty=ty, shape='box')
            add('r_box_new_empty_' + t, 'pub fn r_box_new_empty_%s(p: %s) -> %s { %s::new_empty(p) }' % (t, VT, BT, Bx), kind='new_empty', d=d, ty=ty, shape='box')
            add('r_box_projected_' + t, 'pub fn r_box_projected_%s(a: %s, p: %s) -> %s { a.projected_point(p) }' % (t, BT, VT, VT), kind='projected', d=d, ty=ty, shape='box')
            add('r_box_into_rect_' + t, 'pub fn r_box_into_rect_%s(a: %s) -> %s { a.into_%s() }' % (t, BT, RT, rs), kind='into_rect', d=d, ty=ty, shape='box')
            add('r_box_from_rect_' + t, 'pub fn r_box_from_rect_%s(a: %s) -> %s { a.into_%s() }' % (t, RT, BT, s), kind='from_rect', d=d, ty=ty, shape='box')
            add('r_box_into_rect2_' + t, 'pub fn r_box_into_rect2_%s(a: %s) -> %s { %s::from(a) }' % (t, BT, RT, R), kind='into_rect', d=d, ty=ty, shape='box')
            add('r_box_from_rect2_' + t, 'pub fn r_box_from_rect2_%s(a: %s) -> %s { %s::from(a) }' % (t, RT, BT, Bx), kind='from_rect', d=d, ty=ty, shape='box')
            add('r_box_rt_' + t, 'pub fn r_box_rt_%s(a: %s) -> %s { %s::from(%s::from(a)) }' % (t, BT, BT, Bx, R), kind='rt_box', d=d, ty=ty, shape='box')
            add('r_rect_rt_' + t, 'pub fn r_rect_rt_%s(a: %s) -> %s { %s::from(%s::from(a)) }' % (t, RT, RT, R, Bx), kind='rt_rect', d=d, ty=ty, shape='rect')
            add('r_box_map_' + t, 'pub fn r_box_map_%s(a: %s, f: fn(%s) -> %s) -> %s { a.map(f) }' % (t, BT, ty, ty, BT), kind='map', d=d, ty=ty, shape='box')
            add('r_rect_map_' + t, 'pub fn r_rect_map_%s(a: %s, f: fn(%s) -> %s, g: fn(%s) -> %s) -> %s { a.map(f, g) }' % (t, RT, ty, ty, ty, ty, RT), kind='rmap', d=d, ty=ty, shape='rect')
            add('r_rect_parts_' + t, 'pub fn r_rect_parts_%s(a: %s) -> (%s, %s<%s>, (%s, %s<%s>)) { (a.position(), a.extent(), a.position_extent()) }' % (t, RT, VT, E, ty, VT, E, ty), kind='rparts', d=d, ty=ty, shape='rect')
            add('r_rect_set_' + t, 'pub fn r_rect_set_%s(a: %s, p: %s, e: %s<%s>) -> %s { let mut a = a; a.set_position(p); a.set_extent(e); a }' % (t, RT, VT, E, ty, RT), kind='rset', d=d, ty=ty, shape='rect')
            add('r_rect_new_' + t, 'pub fn r_rect_new_%s(%s) -> %s { %s::new(%s) }' % (t, ', '.join('%s: %s' % (n, ty) for n in AX[d] + EX[d]), RT, R, ', '.join(AX[d] + EX[d])), kind='rnew', d=d, ty=ty, shape='rect')
            add('r_rect_fromtup_' + t, 'pub fn r_rect_fromtup_%s(p: %s, e: %s<%s>) -> %s { %s::from((p, e)) }' % (t, VT, E, ty, RT, R), kind='rfromtup', d=d, ty=ty, shape='rect')
            if ty == 'i32':
                # integers: half of the size is one truncating division of max - min (not centre - min: the centre truncates towards zero)
                add('r_box_half_size_' + t, 'pub fn r_box_half_size_%s(a: %s) -> %s<%s> { a.half_size() }' % (t, BT, E, ty), kind='half_size', d=d, ty=ty, shape='box')
            if ty == 'f32':
                add('r_box_size_' + t, 'pub fn r_box_size_%s(a: %s) -> %s<%s> { a.size() }' % (t, BT, E, ty), kind='size', d=d, ty=ty, shape='box')
                add('r_box_half_size_' + t, 'pub fn r_box_half_size_%s(a: %s) -> %s<%s> { a.half_size() }' % (t, BT, E, ty), kind='half_size', d=d, ty=ty, shape='box')
                add('r_box_distance_' + t, 'pub fn r_box_distance_%s(a: %s, p: %s) -> %s { a.distance_to_point(p) }' % (t, BT, VT, ty), kind='distance', d=d, ty=ty, shape='box')
                add('r_box_as_' + t, 'pub fn r_box_as_%s(a: %s) -> %s<i64> { a.as_() }' % (t, BT, Bx), kind='as', d=d, ty=ty, shape='box')
                add('r_rect_as_' + t, 'pub fn r_rect_as_%s(a: %s) -> %s<i64, u8> { a.as_() }' % (t, RT, R), kind='ras', d=d, ty=ty, shape='rect')
    add('r_aabr_from_aabb_i32', 'pub fn r_aabr_from_aabb_i32(a: Aabb<i32>) -> Aabr<i32> { Aabr::from(a) }', kind='drop_z', d=3, ty='i32', shape='box')
    return roots, meta


# ------------------------------------------------------------------ leaf names
def box_names(arg, d): return {ax: ('%s.min.%s' % (arg, ax), '%s.max.%s' % (arg, ax)) for ax in AX[d]}
def vec_names(arg, d): return {ax: '%s.%s' % (arg, ax) for ax in AX[d]}


def box_syms(arg, d):
    return [sym('%s.min.%s' % (arg, ax)) for ax in AX[d]], [sym('%s.max.%s' % (arg, ax)) for ax in AX[d]]


def rect_as_box_syms(arg, d):
    pos = [sym('%s.%s' % (arg, ax)) for ax in AX[d]]; ext = [sym('%s.%s' % (arg, e)) for e in EX[d]]
    return pos, [p + e for p, e in zip(pos, ext)]


# ------------------------------------------------------------------ set-semantics oracles on the half-integer grid
def grid(K): return [Fraction(n, 2) for n in range(-1, 2 * K + 2)]


def pts(lo, hi, G): return [q for q in G if lo <= q <= hi]
def ipts(lo, hi, G): return [q for q in G if lo < q < hi]


def axis_envs(names_per_axis, limit):
    """assignments of ranks to the leaves: the full product of per-axis weak orderings when it fits, otherwise every ordering of
    each axis against a spread of orderings of the other axes"""
    per = [wo(len(n)) for n in names_per_axis]
    total = 1
    for p in per: total *= len(p)
    if total <= limit:
        for combo in itertools.product(*per):
            a = {}
            for names, ranks in zip(names_per_axis, combo):
                for n, r in zip(names, ranks): a[n] = r
            yield a
        return
    thin = [p[::max(1, len(p) // 6)] for p in per]
    seen = set()
    for i in range(len(per)):
        sets = [per[j] if j == i else thin[j] for j in range(len(per))]
        for combo in itertools.product(*sets):
            if combo in seen: continue
            seen.add(combo)
            a = {}
            for names, ranks in zip(names_per_axis, combo):
                for n, r in zip(names, ranks): a[n] = r
            yield a


def _cmp_of_leaves(r):
    """r is x - y, x - c or c - x for input leaves x, y and a constant c (what a comparison of two such operands normalises to)"""
    if not isinstance(r, Rat) or not r.is_poly(): return False
    pos = neg = 0
    for mono, c in r.num.t.items():
        if mono == (): continue
        if len(mono) != 1 or mono[0][1] != 1 or alg._ATOMS[mono[0][0]][0] == 'fn': return False
        if c == 1: pos += 1
        elif c == -1: neg += 1
        else: return False
    return pos <= 1 and neg <= 1 and pos + neg >= 1


def _ord_cond(c):
    if not isinstance(c, B): return False
    if c.k in ('const', 'var'): return True
    if c.k in ('gt0', 'ge0', 'eq0', 'ne0'): return _cmp_of_leaves(c.a[0])
    if c.k in ('and', 'or'): return _ord_cond(c.a[0]) and _ord_cond(c.a[1])
    if c.k == 'not': return _ord_cond(c.a[0])
    return False


def _ord_value(v):
    if isinstance(v, (list, tuple)): return all(_ord_value(x) for x in v)
    if isinstance(v, B): return _ord_cond(v)
    if isinstance(v, Rat):
        if v.is_const(): return True
        if v.is_poly() and len(v.num.t) == 1:
            (mono, c), = v.num.t.items()
            if not (c == 1 and len(mono) == 1 and mono[0][1] == 1): return False
            kind, name, args = alg._ATOMS[mono[0][0]]
            # min / max of order-invariant values select one of them
            return kind != 'fn' or (name in ('min', 'max') and all(_ord_value(x) for x in args))
        return False
    if hasattr(v, 'fields'): return all(_ord_value(x) for x in v.fields)
    return isinstance(v, (bool, int))


def order_invariant(rs):
    """the abstract path set touches its inputs only through comparisons and returns input leaves, constants or comparison results: then its behaviour
    depends on the weak ordering of the inputs only, and evaluating it on one representative per ordering decides it for all values"""
    for p in rs.paths:
        if not all(_ord_cond(c) for c in p.conds): return False
        if p.out == 'ret' and not _ord_value(p.ret): return False
    return True


# strictly increasing rank -> value maps within the oracle grid (ranks 0..3): used when the path set does arithmetic on its inputs, where one representative
# per ordering is not enough
SPACINGS = [None, [1, 3, 4, 5], [0, 2, 3, 5], [1, 2, 4, 5], [2, 3, 4, 5], [0, 1, 4, 5], [0, 3, 4, 5]]


def run_ord(ctx, key, rs, names_per_axis, oracle, rule, w, limit):
    """evaluate the abstract paths on every ordering; oracle(assign) -> expected value, or None when the statement does not constrain this case"""
    cr = CompiledRoot(rs)
    n = 0; skipped = 0; bad = None
    inv = order_invariant(rs)
    ctx.counts['ord:order-invariant' if inv else 'ord:arithmetic-sampled'] = ctx.counts.get('ord:order-invariant' if inv else 'ord:arithmetic-sampled', 0) + 1
    if not inv: ctx.counts.setdefault('ord:arithmetic-sampled-roots', []).append(key)
    if not inv: rule += ' [the code does arithmetic on its inputs: beyond one representative per ordering, evaluated on %d value spacings (sampled)]' % (len(SPACINGS) - 1)
    envs = ((a if sp is None else {k: sp[int(r)] for k, r in a.items()}) for sp in (SPACINGS if not inv else [None]) for a in axis_envs(names_per_axis, limit) if sp is None or all(float(r).is_integer() and 0 <= r < len(sp) for r in a.values()))
    for a in envs:
        exp = oracle(a)
        if exp is None:
            skipped += 1; continue
        env = mkenv(a)
        try: p = cr.run(env)
        except (AssertionError, KeyError, ValueError, TypeError, IndexError, ZeroDivisionError, AttributeError) as e:
            bad = (a, 'path', str(e)); break
        got = 'panic' if p.out != 'ret' else value(p.ret, env)
        n += 1
        if not same_val(got, exp):
            bad = (a, exp, got); break
    ctx.counts['orderings:' + key] = n
    ctx.paths_eval = getattr(ctx, 'paths_eval', 0) + n
    return ctx.ob(key, bad is None and n > 0, rule, w, 'set semantics on %d orderings (%d unconstrained)' % (n, skipped), None if bad is None else 'assignment %s: expected %s, abstract result %s' % bad)


def flat(v):
    if isinstance(v, (list, tuple)):
        out = []
        for x in v: out.extend(flat(x))
        return out
    return [v]


def same_val(got, exp):
    if got == 'panic' or exp == 'panic': return got == exp
    g = flat(got); e = flat(exp)
    return len(g) == len(e) and all((bool(x) == bool(y)) if isinstance(y, bool) else Fraction(x) == Fraction(y) for x, y in zip(g, e))


def getbox(a, arg, d, shape):
    """(lo[], hi[]) of a box or rectangle argument under assignment a"""
    if shape == 'box':
        return [a['%s.min.%s' % (arg, ax)] for ax in AX[d]], [a['%s.max.%s' % (arg, ax)] for ax in AX[d]]
    pos = [a['%s.%s' % (arg, ax)] for ax in AX[d]]; ext = [a['%s.%s' % (arg, e)] for e in EX[d]]
    return pos, [p + e for p, e in zip(pos, ext)]


def valid(lo, hi): return all(l <= h for l, h in zip(lo, hi))
def positive(lo, hi): return all(l < h for l, h in zip(lo, hi))


def outbox(lo, hi, shape):
    if shape == 'box': return [list(lo), list(hi)]
    return list(lo) + [h - l for l, h in zip(lo, hi)]


# ------------------------------------------------------------------ rect = box on the converted value (symbolic path-set comparison)
def bsubs(b, mp):
    if not isinstance(b, B): return b
    if b.k in ('gt0', 'ge0', 'eq0', 'ne0'): return B.cmp(b.k, b.a[0].subs_deep(mp))
    if b.k in ('and', 'or'): return B(b.k, bsubs(b.a[0], mp), bsubs(b.a[1], mp))
    if b.k == 'not': return bsubs(b.a[0], mp).neg()
    return b


def vsubs(v, mp):
    if isinstance(v, list): return [vsubs(x, mp) for x in v]
    if isinstance(v, Rat): return v.subs_deep(mp)
    if isinstance(v, B): return bsubs(v, mp)
    return v


def rect_subst(d, nargs_box):
    """substitution: box argument leaves -> expressions in the rectangle's leaves"""
    mp = {}
    for i in nargs_box:
        arg = 'a%d' % i
        for ax, e in zip(AX[d], EX[d]):
            mp[atom_in('%s.min.%s' % (arg, ax))] = sym('%s.%s' % (arg, ax))
            mp[atom_in('%s.max.%s' % (arg, ax))] = sym('%s.%s' % (arg, ax)) + sym('%s.%s' % (arg, e))
    return mp


def box_to_rect_val(v, d):
    """convert box-shaped results [[min..],[max..]] into rectangle leaf order (pos.., extent..)"""
    if isinstance(v, list) and len(v) == 2 and all(isinstance(x, list) and len(x) == d for x in v) and not isinstance(v[0][0], list):
        lo, hi = v
        return list(lo) + [h - l for l, h in zip(lo, hi)]
    if isinstance(v, list): return [box_to_rect_val(x, d) for x in v]
    return v


def contradictory(c1, c2):
    for x in c1:
        nx = x.neg()
        for y in c2:
            if nx == y: return True
    return False


def delegation(ctx, key, rrect, rbox, d, box_args, rule, w):
    mp = rect_subst(d, box_args)
    exp = []
    for q in rbox.paths:
        conds = []
        for c in cond_leaves(q): conds.append(bsubs(c, mp))
        if any(isinstance(c, B) and c.k == 'const' and not c.a[0] for c in conds): continue
        conds = [c for c in conds if not (isinstance(c, B) and c.k == 'const')]
        val = 'panic' if q.out != 'ret' else box_to_rect_val(vsubs(q.ret, mp), d)
        exp.append((conds, val))
    bad = None; pairs = 0
    for p in rrect.paths:
        pc = [c for c in cond_leaves(p) if not (isinstance(c, B) and c.k == 'const')]
        pv = 'panic' if p.out != 'ret' else p.ret
        compat = [(c, v) for c, v in exp if not contradictory(pc, c)]
        if not compat: bad = ('no compatible box path', [str(c) for c in pc]); break
        for c, v in compat:
            pairs += 1
            same = (pv == 'panic') == (v == 'panic') and (pv == 'panic' or eq_vals(pv, v))
            if not same:
                bad = ('rect path %s gives %s, box path %s gives %s' % ([str(x) for x in pc], short_v(pv), [str(x) for x in c], short_v(v)),); break
        if bad: break
    return ctx.ob(key, bad is None and pairs > 0, rule, w, 'box method on the converted value, converted back (%d compatible path pairs)' % pairs, bad)


def short_v(v): return str(v)[:300]


def eq_vals(a, b):
    fa = flat(a); fb = flat(b)
    if len(fa) != len(fb): return False
    for x, y in zip(fa, fb):
        if isinstance(x, B) or isinstance(y, B):
            if not (isinstance(x, B) and isinstance(y, B) and x == y): return False
        elif isinstance(x, Rat) and isinstance(y, Rat):
            if not x == y: return False
        elif x != y: return False
    return True


# ------------------------------------------------------------------ main
def run(ctx):
    ctx.level = 'proof'
    ctx.explanation = ('Box code touches its scalars only through comparisons (and rectangles through position+extent sums), so it has finitely many behaviours: the MIR interpreter enumerates all paths with their '
                       'branch conditions; the path set is then evaluated on every weak ordering of the corner/point coordinates (per-axis orderings, full product over the axes where it fits, otherwise every ordering '
                       'of each axis against a spread of the others) and compared with set semantics computed pointwise on the half-integer grid (closed-interval membership, open interiors for collisions). '
                       'Arithmetic methods are compared as canonical polynomials; every rectangle method is compared, path by path after substituting min=position, max=position+extent, with the box method.')
    ctx.assumptions = ['scalars are totally ordered (no NaN)', 'set-semantics obligations are stated for valid boxes (an invalid box has no agreed point set); collisions for boxes of positive extent, as in the statement', 'exact arithmetic for centre/size/distance']
    roots, meta = build_roots()
    sc = ctx.scan(roots, QUICK_FEATURES)
    if sc.compile_error: return
    limit = 60000 if ctx.tier == 'quick' else 3000000
    done = 0
    for r in roots:
        rs = sc.get(r.name); m = meta[r.name]
        if rs is None or not rs.ok: continue
        done += 1
        k = m['kind']; d = m['d']; ty = m['ty']; shape = m['shape']; key = 'c13/' + r.name[2:]; w = r.code
        K = 5; G = grid(K)
        isint = ty == 'i32'

        def argnames(arg):  # per-axis leaf names of a box / rect argument
            if shape == 'box': return [['%s.min.%s' % (arg, ax), '%s.max.%s' % (arg, ax)] for ax in AX[d]]
            return [['%s.%s' % (arg, ax), '%s.%s' % (arg, e)] for ax, e in zip(AX[d], EX[d])]
        try:
            # ---------------- order-type rules (integer instantiation, boxes): exhaustive set semantics
            if shape == 'box' and k in ('contains_point', 'contains', 'collides', 'union', 'intersection', 'expanded', 'is_valid', 'made_valid', 'projected', 'split'):
                A = argnames('a0')
                if k == 'contains_point':
                    names = [A[i] + ['a1.' + ax] for i, ax in enumerate(AX[d])]
                    def orc(a):
                        lo, hi = getbox(a, 'a0', d, shape); p = [a['a1.' + ax] for ax in AX[d]]
                        return all(p[i] in pts(lo[i], hi[i], G) for i in range(d))
                    run_ord(ctx, key, rs, names, orc, 'ord: contains_point = closed-interval membership on every axis', w, limit)
                elif k in ('contains', 'collides', 'union', 'intersection'):
                    Bn = argnames('a1'); names = [A[i] + Bn[i] for i in range(d)]
                    def orc(a, k=k):
                        lo, hi = getbox(a, 'a0', d, shape); lo2, hi2 = getbox(a, 'a1', d, shape)
                        if k == 'contains':
                            if not valid(lo2, hi2): return None
                            return all(set(pts(lo2[i], hi2[i], G)) <= set(pts(lo[i], hi[i], G)) for i in range(d))
                        if k == 'collides':
                            if not (positive(lo, hi) and positive(lo2, hi2)): return None
                            return all(set(ipts(lo[i], hi[i], G)) & set(ipts(lo2[i], hi2[i], G)) for i in range(d))
                        if not (valid(lo, hi) and valid(lo2, hi2)): return None
                        if k == 'union':
                            u = [pts(lo[i], hi[i], G) + pts(lo2[i], hi2[i], G) for i in range(d)]
                            return outbox([min(x) for x in u], [max(x) for x in u], shape)
                        common = [sorted(set(pts(lo[i], hi[i], G)) & set(pts(lo2[i], hi2[i], G))) for i in range(d)]
                        if all(common): return outbox([c[0] for c in common], [c[-1] for c in common], shape)
                        return 'invalid'
                    if k == 'intersection':
                        # result must denote exactly the common points; when there are none it must be an invalid box (any invalid box)
                        cr = CompiledRoot(rs); n = 0; bad = None; sk = 0
                        for a in axis_envs(names, limit):
                            exp = orc(a)
                            if exp is None: sk += 1; continue
                            env = mkenv(a); p = cr.run(env); n += 1
                            if p.out != 'ret': bad = (a, exp, 'panic'); break
                            got = value(p.ret, env)
                            if exp == 'invalid':
                                glo, ghi = got
                                if valid(glo, ghi): bad = (a, 'an invalid box (no common point)', got); break
                            elif not same_val(got, exp): bad = (a, exp, got); break
                        ctx.counts['orderings:' + key] = n
                        ctx.ob(key, bad is None and n > 0, 'ord: intersection contains exactly the common points and is invalid when there are none', w, 'set semantics on %d orderings (%d unconstrained)' % (n, sk), None if bad is None else 'assignment %s: expected %s, abstract result %s' % bad)
                    else:
                        rule = {'contains': 'ord: contains_aab* <=> every point of the other (valid) box is contained', 'collides': 'ord: boxes of positive extent collide <=> their open interiors share a point (touching faces do not collide)', 'union': 'ord: union = smallest box containing both (valid) boxes'}[k]
                        run_ord(ctx, key, rs, names, orc, rule, w, limit)
                elif k == 'expanded':
                    names = [A[i] + ['a1.' + ax] for i, ax in enumerate(AX[d])]
                    def orc(a):
                        lo, hi = getbox(a, 'a0', d, shape)
                        if not valid(lo, hi): return None
                        p = [a['a1.' + ax] for ax in AX[d]]
                        return outbox([min(lo[i], p[i]) for i in range(d)], [max(hi[i], p[i]) for i in range(d)], shape)
                    run_ord(ctx, key, rs, names, orc, 'ord: expanded_to_contain_point = smallest box containing the box and the point', w, limit)
                elif k == 'is_valid':
                    run_ord(ctx, key, rs, A, lambda a: valid(*getbox(a, 'a0', d, shape)), 'ord: is_valid <=> min <= max on every axis', w, limit)
                elif k == 'made_valid':
                    def orc(a):
                        lo, hi = getbox(a, 'a0', d, shape)
                        return outbox([min(l, h) for l, h in zip(lo, hi)], [max(l, h) for l, h in zip(lo, hi)], shape)
                    run_ord(ctx, key, rs, A, orc, 'ord: validity repair orders the two corners on every axis', w, limit)
                elif k == 'projected':
                    names = [A[i] + ['a1.' + ax] for i, ax in enumerate(AX[d])]
                    def orc(a):
                        lo, hi = getbox(a, 'a0', d, shape)
                        if not valid(lo, hi): return None
                        p = [a['a1.' + ax] for ax in AX[d]]
                        out = []
                        for i in range(d):
                            cand = pts(lo[i], hi[i], G)
                            best = min(cand, key=lambda q: abs(q - p[i]))
                            out.append(best)
                        return out
                    run_ord(ctx, key, rs, names, orc, 'ord: projected_point = the nearest point of the (valid) box', w, limit)
                elif k == 'split':
                    ai = AX[d].index(m['ax'])
                    names = [A[i] + (['a1'] if i == ai else []) for i in range(d)]
                    def orc(a):
                        lo, hi = getbox(a, 'a0', d, shape); sp = a['a1']
                        if not (valid(lo, hi) and lo[ai] <= sp <= hi[ai]): return None
                        hi1 = list(hi); hi1[ai] = sp; lo2 = list(lo); lo2[ai] = sp
                        return [outbox(lo, hi1, shape), outbox(lo2, hi, shape)]
                    run_ord(ctx, key, rs, names, orc, 'ord: split_at_* cuts the box at the plane: (low, high) share only the cutting plane and together are the box', w, limit)
                continue
            # ---------------- rectangle methods = box method on the converted value
            if shape == 'rect' and k in ('contains_point', 'contains', 'collides', 'union', 'intersection', 'expanded', 'split', 'center', 'icenter', 'colvec'):
                twin = sc.get('r_box_' + r.name[len('r_rect_'):])
                if twin is None or not twin.ok:
                    ctx.ob(key, False, 'deleg', w, 'box twin analysed', 'missing'); continue
                boxargs = [0] if k in ('contains_point', 'expanded', 'split', 'center', 'icenter') else [0, 1]
                delegation(ctx, key, rs, twin, d, boxargs, 'deleg: every rectangle method equals the box method on the converted value (min = position, max = position + extent), converted back', w)
                continue
            # in-place twins (float instantiation too): identical path sets
            if m.get('twin') and not isint:
                pass
            p1 = None
            if k in ('center', 'size', 'half_size', 'new_empty', 'into_rect', 'from_rect', 'rt_box', 'rt_rect', 'map', 'rmap', 'rparts', 'rset', 'rnew', 'rfromtup', 'as', 'ras', 'drop_z', 'distance'):
                rets = [p for p in rs.paths if p.out == 'ret']
                if k == 'distance':
                    # = distance(projected_point(p), p): compared path by path with the (order-checked) projected_point root
                    tw = sc.get('r_box_projected_' + r.name[len('r_box_distance_'):])
                    if tw is None or not tw.ok:
                        ctx.ob(key, False, 'deleg', w, 'projected_point analysed', 'missing'); continue
                    pv = [sym('a1.' + ax) for ax in AX[d]]
                    exp = []
                    for q in tw.paths:
                        qc = [c for c in cond_leaves(q) if not (isinstance(c, B) and c.k == 'const')]
                        if q.out != 'ret': exp.append((qc, 'panic')); continue
                        qq = leaves(q.ret)
                        exp.append((qc, alg.sqrt(sum_((qq[i] - pv[i]) * (qq[i] - pv[i]) for i in range(d)))))
                    bad = None; pairs = 0
                    for p in rs.paths:
                        pc = [c for c in cond_leaves(p) if not (isinstance(c, B) and c.k == 'const')]
                        for c, v in exp:
                            if contradictory(pc, c): continue
                            pairs += 1
                            got = 'panic' if p.out != 'ret' else p.ret
                            if (got == 'panic') != (v == 'panic') or (got != 'panic' and not got == v):
                                bad = ('path %s: %s vs %s' % ([str(x) for x in pc], short_v(got), short_v(v)),); break
                        if bad: break
                    ctx.ob(key, bad is None and pairs > 0, 'deleg: distance_to_point = distance(projected_point(p), p) on every path', w, '%d compatible path pairs agree' % pairs, bad)
                else:
                    p1 = rs.only()
            if k == 'icenter':
                lo, hi = box_syms('a0', d)
                vec_eq(ctx, key, rs.only().ret, [fn('idiv', l + h, C(2)) for l, h in zip(lo, hi)], 'alg=: integer centre = (min + max) div 2', w)
            elif k == 'center':
                lo, hi = box_syms('a0', d)
                vec_eq(ctx, key, p1.ret, [(l + h) / C(2) for l, h in zip(lo, hi)], 'alg=: centre = (min + max) / 2', w)
            elif k == 'size':
                lo, hi = box_syms('a0', d)
                vec_eq(ctx, key, p1.ret, [h - l for l, h in zip(lo, hi)], 'alg=: size = max - min', w)
            elif k == 'half_size':
                lo, hi = box_syms('a0', d)
                half = (lambda x: fn('idiv', x, C(2))) if m['ty'] == 'i32' else (lambda x: x / C(2))
                vec_eq(ctx, key, p1.ret, [half(h - l) for l, h in zip(lo, hi)], 'alg=: half size = (max - min) / 2 (integers: one truncating division of max - min)', w)
            elif k == 'distance':
                pass
            elif k == 'new_empty':
                p = [sym('a0.' + ax) for ax in AX[d]]
                vec_eq(ctx, key, p1.ret, p + p, 'perm: new_empty(p) = [p, p]', w)
            elif k == 'into_rect':
                lo, hi = box_syms('a0', d)
                vec_eq(ctx, key, p1.ret, lo + [h - l for l, h in zip(lo, hi)], 'alg=: rectangle of a box: position = min, extent = max - min', w)
            elif k == 'from_rect':
                lo, hi = rect_as_box_syms('a0', d)
                vec_eq(ctx, key, p1.ret, lo + hi, 'alg=: box of a rectangle: min = position, max = position + extent', w)
            elif k == 'rt_box':
                lo, hi = box_syms('a0', d)
                vec_eq(ctx, key, p1.ret, lo + hi, 'alg=: box -> rectangle -> box is the identity', w)
            elif k == 'rt_rect':
                vec_eq(ctx, key, p1.ret, [sym('a0.' + n) for n in AX[d] + EX[d]], 'alg=: rectangle -> box -> rectangle is the identity', w)
            elif k == 'map':
                lo, hi = box_syms('a0', d)
                vec_eq(ctx, key, p1.ret, [fn('call:a1', x) for x in lo + hi], 'perm: map applies f to each corner coordinate in place', w)
            elif k == 'rmap':
                vec_eq(ctx, key, p1.ret, [fn('call:a1', sym('a0.' + n)) for n in AX[d]] + [fn('call:a2', sym('a0.' + n)) for n in EX[d]], 'perm: map applies the position closure to position elements and the extent closure to extent elements', w)
            elif k == 'rparts':
                pos = [sym('a0.' + n) for n in AX[d]]; ext = [sym('a0.' + n) for n in EX[d]]
                vec_eq(ctx, key, p1.ret, pos + ext + pos + ext, 'perm: position()/extent()/position_extent() return the matching fields', w)
            elif k == 'rset':
                vec_eq(ctx, key, p1.ret, [sym('a1.' + n) for n in AX[d]] + [sym('a2.' + n) for n in EX[d]], 'perm: set_position/set_extent overwrite the matching fields', w)
            elif k == 'rnew':
                vec_eq(ctx, key, p1.ret, [sym('a%d' % i) for i in range(2 * d)], 'perm: Rect::new(position.., extent..)', w)
            elif k == 'rfromtup':
                vec_eq(ctx, key, p1.ret, [sym('a0.' + n) for n in AX[d]] + [sym('a1.' + n) for n in EX[d]], 'perm: Rect::from((position, extent))', w)
            elif k == 'as':
                lo, hi = box_syms('a0', d)
                vec_eq(ctx, key, p1.ret, [fn('toint:i64', x) for x in lo + hi], 'perm: as_ casts each coordinate in place', w)
            elif k == 'ras':
                vec_eq(ctx, key, p1.ret, [fn('toint:i64', sym('a0.' + n)) for n in AX[d]] + [fn('toint:u8', sym('a0.' + n)) for n in EX[d]], 'perm: as_ casts position and extent elements in place', w)
            elif k == 'drop_z':
                vec_eq(ctx, key, p1.ret, [sym('a0.min.x'), sym('a0.min.y'), sym('a0.max.x'), sym('a0.max.y')], 'perm: Aabr::from(Aabb) drops z', w)
            elif k == 'colvec' and shape == 'box':
                lo, hi = box_syms('a0', d); lo2, hi2 = box_syms('a1', d)
                ctx.ob(key + '/paths', len(rs.paths) == 2 ** d and all(p.out == 'ret' for p in rs.paths), 'paths: one binary decision per axis', w, 2 ** d, len(rs.paths))
                for pi, p in enumerate(rs.paths):
                    if p.out != 'ret': continue
                    conds = cond_leaves(p); v = leaves(p.ret)
                    for i, ax in enumerate(AX[d]):
                        c1 = (lo[i] + hi[i]) / C(2); c2 = (lo2[i] + hi2[i]) / C(2)
                        low = any(c == lt(c1, c2) for c in conds); high = any(c == ge(c1, c2) for c in conds)
                        ctx.ob('%s/path%d/%s/decided-by-centres' % (key, pi, ax), low != high, 'paths: the side is decided by comparing the two centres on that axis', w, 'c1 < c2 or c1 >= c2', [str(c) for c in conds])
                        # translating box 1 by minus this component makes the boxes touch on this axis: its far face meets the near face of box 2
                        if low: ctx.same('%s/path%d/%s/touch' % (key, pi, ax), hi[i] - v[i], lo2[i], 'alg=: box 1 left of box 2: (max1 - v) = min2, the boxes touch', w)
                        elif high: ctx.same('%s/path%d/%s/touch' % (key, pi, ax), lo[i] - v[i], hi2[i], 'alg=: box 1 right of box 2: (min1 - v) = max2, the boxes touch', w)
            elif isint and shape == 'rect':
                pass
        except (AssertionError, KeyError, ValueError, TypeError, IndexError, ZeroDivisionError, AttributeError) as e:
            ctx.ob(key + '/paths', False, 'path structure', w, 'analysable', str(e))
    # in-place twins: same abstract path set as the returning form
    for r in roots:
        m = meta[r.name]
        if not m.get('twin'): continue
        a = sc.get(r.name); b = sc.get(r.name.replace('_inplace', ''))
        if a is None or b is None or not a.ok or not b.ok: continue
        sa = sorted((sorted(str(c) for c in cond_leaves(p)), p.out, str(p.ret) if p.out == 'ret' else '') for p in a.paths)
        sb = sorted((sorted(str(c) for c in cond_leaves(p)), p.out, str(p.ret) if p.out == 'ret' else '') for p in b.paths)
        ctx.ob('c13/' + r.name[2:] + '/same-as-returning-form', sa == sb, 'sibling: the in-place form has the same decision tree and results as the returning form', r.code, len(sb), len(sa))
    ctx.floor('roots analysed', done, len(roots))
    ctx.floor('API uses generated (counted at implementation time)', len(roots), 199)
    ctx.floor('order-type roots whose comparisons-only side condition holds', ctx.counts.get('ord:order-invariant', 0), 70)
    ctx.floor('orderings evaluated', getattr(ctx, 'paths_eval', 0), 15000)
