"""C11 — spatial vector functions satisfy their geometric definitions."""
from ..run import Root, leaves, Enum
from ..alg import C, sym, fn, Rat, named, atom_in
from ..sem import B, lt, le, gt, ge, as_bool
from ..shapes import *
from ..rules import feasible_paths, nonconst_conds, cond_leaves, truth
from .. import alg

ID = 'C11'


def build_roots(kinds):
    roots = []; meta = {}

    def add(name, code, max_paths=32, **m):
        roots.append(Root(name, code, max_paths=max_paths)); meta[name] = m

    for K in kinds:
        V = '%s<f32>' % K
        for f in ('dot', 'distance_squared', 'distance'):
            add('r_%s_%s' % (f, K), 'pub fn r_%s_%s(a: %s, b: %s) -> f32 { a.%s(b) }' % (f, K, V, V, f), kind=f, K=K)
        # unsigned elements: the squared distance is defined (no underflow) exactly when self >= v element-wise, i.e. the difference is taken as self - v
        add('r_distance_squared_u32_%s' % K, 'pub fn r_distance_squared_u32_%s(a: %s<u32>, b: %s<u32>) -> u32 { a.distance_squared(b) }' % (K, K, K), kind='dist2_u', K=K)
        for f in ('magnitude_squared', 'magnitude'):
            add('r_%s_%s' % (f, K), 'pub fn r_%s_%s(a: %s) -> f32 { a.%s() }' % (f, K, V, f), kind=f, K=K)
        add('r_normalized_' + K, 'pub fn r_normalized_%s(a: %s) -> %s { a.normalized() }' % (K, V, V), kind='normalized', K=K)
        add('r_normalize_' + K, 'pub fn r_normalize_%s(a: %s) -> %s { let mut a = a; a.normalize(); a }' % (K, V, V), kind='normalized', K=K)
        add('r_nagm_' + K, 'pub fn r_nagm_%s(a: %s) -> (%s, f32) { a.normalized_and_get_magnitude() }' % (K, V, V), kind='nagm', K=K)
        add('r_nagm_inplace_' + K, 'pub fn r_nagm_inplace_%s(a: %s) -> (%s, f32) { let mut a = a; let m = a.normalize_and_get_magnitude(); (a, m) }' % (K, V, V), kind='nagm', K=K)
        add('r_try_normalized_' + K, 'pub fn r_try_normalized_%s(a: %s) -> Option<%s> { a.try_normalized() }' % (K, V, V), kind='try_normalized', K=K)
        add('r_is_approx_zero_' + K, 'pub fn r_is_approx_zero_%s(a: %s) -> bool { a.is_approx_zero() }' % (K, V), kind='close', K=K, x=0)
        add('r_is_normalized_' + K, 'pub fn r_is_normalized_%s(a: %s) -> bool { a.is_normalized() }' % (K, V), kind='close', K=K, x=1)
        add('r_is_close_' + K, 'pub fn r_is_close_%s(a: %s, x: f32) -> bool { a.is_magnitude_close_to(x) }' % (K, V), kind='close', K=K, x=None)
        add('r_angle_' + K, 'pub fn r_angle_%s(a: %s, b: %s) -> f32 { a.angle_between(b) }' % (K, V, V), kind='angle', K=K, deg=False)
        add('r_angle_deg_' + K, 'pub fn r_angle_deg_%s(a: %s, b: %s) -> f32 { a.angle_between_degrees(b) }' % (K, V, V), kind='angle', K=K, deg=True)
        add('r_reflected_' + K, 'pub fn r_reflected_%s(a: %s, n: %s) -> %s { a.reflected(n) }' % (K, V, V, V), kind='reflected', K=K)
        add('r_refracted_' + K, 'pub fn r_refracted_%s(i: %s, n: %s, eta: f32) -> %s { i.refracted(n, eta) }' % (K, V, V, V), kind='refracted', K=K)
        add('r_face_forward_' + K, 'pub fn r_face_forward_%s(a: %s, inc: %s, re: %s) -> %s { a.face_forward(inc, re) }' % (K, V, V, V, V), kind='face_forward', K=K)
    V2 = 'Vec2<f32>'
    add('r_determine_side', 'pub fn r_determine_side(c: %s, a: %s, b: %s) -> f32 { c.determine_side(a, b) }' % (V2, V2, V2), kind='side', K='Vec2')
    add('r_signed_area', 'pub fn r_signed_area(a: %s, b: %s, c: %s) -> f32 { Vec2::signed_triangle_area(a, b, c) }' % (V2, V2, V2), kind='sarea', K='Vec2')
    add('r_area', 'pub fn r_area(a: %s, b: %s, c: %s) -> f32 { Vec2::triangle_area(a, b, c) }' % (V2, V2, V2), kind='area', K='Vec2')
    V2i = 'Vec2<i32>'
    add('r_determine_side_i32', 'pub fn r_determine_side_i32(c: %s, a: %s, b: %s) -> i32 { c.determine_side(a, b) }' % (V2i, V2i, V2i), kind='side', K='Vec2', ty='i32')
    add('r_signed_area_i32', 'pub fn r_signed_area_i32(a: %s, b: %s, c: %s) -> i32 { Vec2::signed_triangle_area(a, b, c) }' % (V2i, V2i, V2i), kind='sarea', K='Vec2', ty='i32')
    add('r_area_i32', 'pub fn r_area_i32(a: %s, b: %s, c: %s) -> i32 { Vec2::triangle_area(a, b, c) }' % (V2i, V2i, V2i), kind='area', K='Vec2', ty='i32')
    V3 = 'Vec3<f32>'
    add('r_cross', 'pub fn r_cross(a: %s, b: %s) -> %s { a.cross(b) }' % (V3, V3, V3), kind='cross', K='Vec3')
    add('r_vslerp0', 'pub fn r_vslerp0(a: %s, b: %s, f: f32) -> %s { Vec3::slerp_unclamped(a, b, f) }' % (V3, V3, V3), kind='slerp_ends', K='Vec3', max_paths=96)
    # the clamped forms (inherent and trait): the factor is clamped to [0,1], nothing else
    add('r_vslerp_clamped', 'pub fn r_vslerp_clamped(a: %s, b: %s, f: f32) -> %s { Vec3::slerp(a, b, f) }' % (V3, V3, V3), kind='slerp_clamped', K='Vec3', max_paths=96)
    add('r_vslerp_clamped_trait', 'pub fn r_vslerp_clamped_trait(a: %s, b: %s, f: f32) -> %s { vek::ops::Slerp::slerp(a, b, f) }' % (V3, V3, V3), kind='slerp_clamped', K='Vec3', max_paths=96)
    V4 = 'Vec4<f32>'
    add('r_homogenized', 'pub fn r_homogenized(a: %s) -> %s { a.homogenized() }' % (V4, V4), kind='homog', K='Vec4')
    add('r_homogenize', 'pub fn r_homogenize(a: %s) -> %s { let mut a = a; a.homogenize(); a }' % (V4, V4), kind='homog', K='Vec4')
    add('r_is_point', 'pub fn r_is_point(a: %s) -> bool { a.is_point() }' % V4, kind='isw', K='Vec4', x=1)
    add('r_is_direction', 'pub fn r_is_direction(a: %s) -> bool { a.is_direction() }' % V4, kind='isw', K='Vec4', x=0)
    add('r_is_homogeneous', 'pub fn r_is_homogeneous(a: %s) -> bool { a.is_homogeneous() }' % V4, kind='ishom', K='Vec4')
    return roots, meta


def approx_rel(a, b, e, r): return B('truthy', fn('approx:relative_eq', a, b, e, r))


def run(ctx):
    ctx.level = 'proof'
    ctx.explanation = ('Every spatial function of every spatial vector type is interpreted with free symbols and compared, in exact arithmetic with sqrt(P)^2 = P, with its definition: dot / squared magnitude / squared distance as polynomials, '
                       'magnitude and distance as their square roots, normalisation = v/|v| with unit length and parallelism computed, the returning/in-place/also-returns-magnitude forms equal, try_normalized = None exactly on the is_approx_zero test; '
                       'cross = Levi-Civita definition with bilinearity, anticommutativity, orthogonality and the Lagrange identity computed on the interpreted value; reflection = v - 2(v.n)n; refraction with the complete path set (zero vector iff k < 0, strictly); '
                       'face_forward by the sign of reference.incident (<= 0 keeps); angle_between = acos of the dot of the normalised operands clamped to [-1,1] on every path; 2-D side/area formulas; homogenisation; vector slerp endpoints by substitution.')
    ctx.assumptions = ['exact arithmetic (rounding, NaN excluded)', 'declined: the numeric range of acos, tolerances of the approx predicates (they are opaque scalar predicates with their arguments checked), constant-speed/unit-direction of vector slerp']
    feats = ALL_FEATURES
    spatial = [k for k in SPATIAL if k in vec_kinds(feats)]
    kinds = spatial if ctx.tier == 'thorough' else [k for k in spatial if vdim(k) <= 8]
    roots, meta = build_roots(kinds)
    if ctx.elem == 'i32':   # integer twin pass: the ring-only functions (the others need T: Real)
        roots = [r for r in roots if meta[r.name]['kind'] in ('dot', 'distance_squared', 'magnitude_squared', 'cross', 'reflected', 'homog', 'face_forward') and 'u32' not in r.name]
    sc = ctx.scan(roots, feats)
    if sc.compile_error: return
    done = 0
    eps = named('eps:f32')
    res = {r.name: sc.get(r.name) for r in roots}
    for r in roots:
        rs = res[r.name]; m = meta[r.name]
        if rs is None or not rs.ok: continue
        done += 1
        k = m['kind']; K = m['K']; N = vdim(K); key = 'c11/' + r.name[2:]; w = r.code
        A = vsyms('a0', K); Bv = vsyms('a1', K)
        s2 = sum_(x * x for x in A); sg = alg.sqrt(s2)
        try:
            if k == 'dot': ctx.same(key, rs.only().ret, dot(A, Bv), 'alg=: dot = sum of products', w)
            elif k == 'magnitude_squared': ctx.same(key, rs.only().ret, s2, 'alg=: squared magnitude = sum of squares', w)
            elif k == 'magnitude':
                v = rs.only().ret
                ctx.same(key, v, sg, 'alg=: magnitude = sqrt(sum of squares)', w)
                ctx.same(key + '/squares', v * v, s2, 'alg=: magnitude^2 = magnitude_squared (computed)', w)
            elif k == 'distance_squared': ctx.same(key, rs.only().ret, sum_((x - y) * (x - y) for x, y in zip(A, Bv)), 'alg=: squared distance = |a - b|^2', w)
            elif k == 'dist2_u':
                p = rs.only()
                ctx.same(key, p.ret, sum_((x - y) * (x - y) for x, y in zip(A, Bv)), 'alg=: squared distance = |a - b|^2', w)
                # the raw (uninterpreted) term: every subtraction is element-of-self minus element-of-v, in this order (for an unsigned type the other
                # order underflows on exactly the inputs this one accepts)
                tid = p.d['ret'].get('t') if isinstance(p.d.get('ret'), dict) else None
                subs = []; seen = set(); stack = [tid] if tid is not None else []
                while stack:
                    t = stack.pop()
                    if t in seen: continue
                    seen.add(t); term = rs.sem.terms[t]
                    if term[0] == 'op':
                        if 'Sub::sub' in term[1] or term[1].startswith('sub'):
                            subs.append(tuple(rs.sem.terms[x][1] if rs.sem.terms[x][0] == 'in' else '?' for x in term[2]))
                        stack.extend(term[2])
                flds = VEC_FIELDS[K][0]
                want = sorted(('a0.%s' % f, 'a1.%s' % f) for f in flds)
                ctx.ob(key + '/operand-order', sorted(subs) == want, 'perm: the differences are self[i] - v[i] (operand order decides the domain of an unsigned element type)', w, want[:3], sorted(subs)[:3])
            elif k == 'distance':
                v = rs.only().ret; d2 = sum_((x - y) * (x - y) for x, y in zip(A, Bv))
                ctx.same(key, v, alg.sqrt(d2), 'alg=: distance = |a - b|', w)
                ctx.same(key + '/squares', v * v, d2, 'alg=: distance^2 = distance_squared (computed)', w)
            elif k == 'normalized':
                v = leaves(rs.only().ret)
                vec_eq(ctx, key, v, [x / sg for x in A], 'alg=: normalized = v / |v|', w)
                ctx.same(key + '/unit', sum_(x * x for x in v), C(1), 'alg=: the normalised vector has unit length (computed)', w)
                vec_eq(ctx, key + '/parallel', [x * sg for x in v], A, 'alg=: normalized * |v| = v (parallel, same direction)', w)
            elif k == 'nagm':
                v = leaves(rs.only().ret)
                vec_eq(ctx, key, v, [x / sg for x in A] + [sg], 'alg=: (v/|v|, |v|)', w)
            elif k == 'close':
                x = C(m['x']) if m['x'] is not None else sym('a1')
                p = rs.only()
                ctx.ob(key, truth(p.ret) == approx_rel(s2, x * x, C(4) * eps, C(4) * eps), 'deleg: |v| close to x is decided as relative_eq(|v|^2, x^2, 4 eps, 4 max_rel)', w, 'relative_eq(|v|^2, x^2, 4eps, 4eps)', str(p.ret))
            elif k == 'try_normalized':
                zero = approx_rel(s2, C(0), C(4) * eps, C(4) * eps)
                paths = feasible_paths(rs)
                ctx.ob(key + '/two-outcomes', len(paths) == 2 and all(p.out == 'ret' for p in paths), 'paths', w, 2, len(paths))
                for i, p in enumerate(paths):
                    if p.out != 'ret': continue
                    conds = nonconst_conds(p)
                    if isinstance(p.ret, Enum) and p.ret.var == 0:
                        ctx.ob('%s/none-iff-approx-zero' % key, len(conds) == 1 and conds[0] == zero, 'paths: None exactly when is_approx_zero()', w, str(zero), [str(c) for c in conds])
                    elif isinstance(p.ret, Enum) and p.ret.var == 1:
                        ctx.ob('%s/some-iff-not-approx-zero' % key, len(conds) == 1 and conds[0] == zero.neg(), 'paths: Some exactly when not is_approx_zero()', w, str(zero.neg()), [str(c) for c in conds])
                        vec_eq(ctx, key + '/value', leaves(p.ret.fields[0]), [x / sg for x in A], 'alg=: Some(normalized)', w)
                    else: ctx.ob('%s/path%d' % (key, i), False, 'paths', w, 'Option', str(p.ret))
            elif k == 'angle':
                sb = alg.sqrt(sum_(x * x for x in Bv))
                d = dot([x / sg for x in A], [y / sb for y in Bv])
                paths = [p for p in feasible_paths(rs)]
                scale = (C(180) / named('pi')) if m['deg'] else C(1)
                seen = set()
                for i, p in enumerate(paths):
                    if p.out != 'ret':
                        ctx.ob('%s/path%d' % (key, i), False, 'paths: no panic (the clamp bounds -1 <= 1 are constants)', w, 'returns', str(p.panic)); continue
                    conds = nonconst_conds(p)
                    lo = any(c == lt(d, C(-1)) for c in conds); hi = any(c == gt(d, C(1)) for c in conds)
                    arg = C(-1) if lo else C(1) if hi else d
                    inside = (not lo and not hi and any(c == ge(d, C(-1)) for c in conds) and any(c == le(d, C(1)) for c in conds))
                    # a clamp written with min/max instead of branches: one expression covering the three regions
                    from ..sem import minmax
                    mm = (not lo and not hi and not inside and not conds)
                    if mm: arg = minmax('min', minmax('max', d, C(-1)), C(1))
                    ctx.ob('%s/path%d/clamped' % (key, i), lo or hi or inside or mm, 'paths: the cosine is clamped to [-1,1] before acos (so the angle is in [0,pi])', w, 'd < -1 | -1 <= d <= 1 | d > 1, or min(max(d,-1),1)', [str(c) for c in conds])
                    ctx.same('%s/path%d/value' % (key, i), p.ret, fn('acos', arg) * scale, 'alg=: angle = acos(clamp(n(a) . n(b)))%s' % (' in degrees' if m['deg'] else ''), w)
                    if mm: seen |= {'lo', 'hi', 'in'}
                    else: seen.add('lo' if lo else 'hi' if hi else 'in')
                ctx.ob(key + '/outcomes', seen == {'lo', 'hi', 'in'}, 'paths: the three clamp outcomes', w, 3, sorted(seen))
            elif k == 'reflected':
                dn = dot(A, Bv)
                vec_eq(ctx, key, rs.only().ret, [A[i] - C(2) * dn * Bv[i] for i in range(N)], 'alg=: reflection = v - 2 (v.n) n', w)
            elif k == 'refracted':
                eta = sym('a2'); nd = dot(Bv, A)
                kk = C(1) - eta * eta * (C(1) - nd * nd)
                paths = feasible_paths(rs)
                ctx.ob(key + '/two-outcomes', len(paths) == 2 and all(p.out == 'ret' for p in paths), 'paths', w, 2, len(paths))
                for i, p in enumerate(paths):
                    if p.out != 'ret': continue
                    conds = nonconst_conds(p)
                    if len(conds) == 1 and conds[0] == lt(kk, C(0)):
                        vec_eq(ctx, key + '/total-internal-reflection', p.ret, [C(0)] * N, 'paths: zero vector exactly when k = 1 - eta^2 (1 - (n.i)^2) < 0 (strictly)', w)
                    elif len(conds) == 1 and conds[0] == ge(kk, C(0)):
                        sk = alg.sqrt(kk)
                        vec_eq(ctx, key + '/snell', p.ret, [A[j] * eta - Bv[j] * (eta * nd + sk) for j in range(N)], 'alg=: refraction = eta i - (eta (n.i) + sqrt(k)) n when k >= 0', w)
                    else:
                        ctx.ob('%s/path%d/decision' % (key, i), False, 'paths: the only decision is k < 0', w, 'k < 0 / k >= 0', [str(c) for c in conds])
            elif k == 'face_forward':
                inc = vsyms('a1', K); ref = vsyms('a2', K); d = dot(ref, inc)
                paths = feasible_paths(rs)
                ctx.ob(key + '/two-outcomes', len(paths) == 2 and all(p.out == 'ret' for p in paths), 'paths', w, 2, len(paths))
                for i, p in enumerate(paths):
                    if p.out != 'ret': continue
                    conds = nonconst_conds(p)
                    if len(conds) == 1 and conds[0] == le(d, C(0)): vec_eq(ctx, key + '/keep', p.ret, A, 'paths: kept when reference . incident <= 0', w)
                    elif len(conds) == 1 and conds[0] == gt(d, C(0)): vec_eq(ctx, key + '/flip', p.ret, [-x for x in A], 'paths: negated when reference . incident > 0', w)
                    else: ctx.ob('%s/path%d/decision' % (key, i), False, 'paths: decided by the sign of reference . incident', w, 'd <= 0 / d > 0', [str(c) for c in conds])
            elif k in ('side', 'sarea', 'area'):
                if k == 'side': c_, a_, b_ = vsyms('a0', K), vsyms('a1', K), vsyms('a2', K)
                else: a_, b_, c_ = vsyms('a0', K), vsyms('a1', K), vsyms('a2', K)
                cr = (b_[0] - a_[0]) * (c_[1] - a_[1]) - (b_[1] - a_[1]) * (c_[0] - a_[0])     # 2-D cross product (b-a) x (c-a)
                half = (lambda x: fn('idiv', x, C(2))) if m.get('ty') == 'i32' else (lambda x: x / C(2))
                if k == 'side': ctx.same(key, rs.only().ret, cr, 'alg=: determine_side = (b-a) x (c-a)', w)
                elif k == 'sarea': ctx.same(key, rs.only().ret, half(cr), 'alg=: signed triangle area = cross / 2 (integer division for integer elements)', w)
                else:
                    s = half(cr)
                    paths = feasible_paths(rs)
                    ctx.ob(key + '/two-outcomes', len(paths) == 2 and all(p.out == 'ret' for p in paths), 'paths', w, 2, len(paths))
                    for i, p in enumerate(paths):
                        if p.out != 'ret': continue
                        conds = nonconst_conds(p)
                        pos = any(c == ge(s, -s) for c in conds); neg = any(c == lt(s, -s) for c in conds)
                        if pos: ctx.same('%s/nonneg' % key, p.ret, s, 'paths: |s| = s when s >= 0', w)
                        elif neg: ctx.same('%s/neg' % key, p.ret, -s, 'paths: |s| = -s when s < 0', w)
                        else: ctx.ob('%s/path%d/decision' % (key, i), False, 'paths: absolute value of the signed area', w, 's >= -s / s < -s', [str(c) for c in conds])
            elif k == 'cross':
                v = leaves(rs.only().ret)
                vec_eq(ctx, key, v, cross(A, Bv), 'alg=: cross product = Levi-Civita definition (right-handed)', w)
                a_at = [atom_in('a0.' + c) for c in 'xyz']; b_at = [atom_in('a1.' + c) for c in 'xyz']
                Cc = [sym('c.' + c) for c in 'xyz']; t = sym('t')
                swap = {a_at[i]: Bv[i] for i in range(3)}; swap.update({b_at[i]: A[i] for i in range(3)})
                vec_eq(ctx, key + '/anticommutative', [x.subs(swap) for x in v], [-x for x in v], 'alg=: b x a = -(a x b) (computed on the interpreted value)', w)
                lin = {a_at[i]: A[i] + t * Cc[i] for i in range(3)}; onlyc = {a_at[i]: Cc[i] for i in range(3)}
                vec_eq(ctx, key + '/bilinear-left', [x.subs(lin) for x in v], [v[i] + t * v[i].subs(onlyc) for i in range(3)], 'alg=: (a + t c) x b = a x b + t (c x b)', w)
                lin = {b_at[i]: Bv[i] + t * Cc[i] for i in range(3)}; onlyc = {b_at[i]: Cc[i] for i in range(3)}
                vec_eq(ctx, key + '/bilinear-right', [x.subs(lin) for x in v], [v[i] + t * v[i].subs(onlyc) for i in range(3)], 'alg=: a x (b + t c) = a x b + t (a x c)', w)
                ctx.same(key + '/orthogonal-a', dot(A, v), C(0), 'alg=: a . (a x b) = 0', w)
                ctx.same(key + '/orthogonal-b', dot(Bv, v), C(0), 'alg=: b . (a x b) = 0', w)
                ctx.same(key + '/lagrange', dot(v, v), dot(A, A) * dot(Bv, Bv) - dot(A, Bv) * dot(A, Bv), 'alg=: |a x b|^2 = |a|^2 |b|^2 - (a.b)^2', w)
            elif k == 'slerp_ends':
                n = 0
                for i, p in enumerate(feasible_paths(rs)):
                    if p.out != 'ret': continue
                    v = leaves(p.ret)
                    fconds = [c for c in nonconst_conds(p) if atom_in('a2') in c.atoms()]
                    ctx.ob('%s/path%d/lengths-extrapolate' % (key, i), not fconds, 'paths: the unclamped vector slerp does not branch on the factor (lengths are interpolated linearly, also outside [0,1])', w, [], [str(c) for c in fconds])
                    ma = alg.sqrt(dot(A, A)); mb = alg.sqrt(dot(Bv, Bv)); f_ = sym('a2')
                    # |result|^2 = (lerp of the lengths)^2 * |from^ t1 + to^ t2|^2: the length factor must divide the value
                    at0 = [x.subs_deep({atom_in('a2'): C(0)}) for x in v]; at1 = [x.subs_deep({atom_in('a2'): C(1)}) for x in v]
                    vec_eq(ctx, '%s/path%d/at0' % (key, i), at0, A, 'alg=: vector slerp at factor 0 is `from` (substitution into the computed value)', w)
                    vec_eq(ctx, '%s/path%d/at1' % (key, i), at1, Bv, 'alg=: vector slerp at factor 1 is `to`', w)
                    n += 1
                ctx.ob(key + '/covers', n >= 1, 'paths', w, '>=1', n)
                # the complete shape: directions interpolated on the sphere (angle from the NORMALISED operands), length interpolated linearly
                from .c12 import vslerp
                vslerp(ctx, key + '/shape', rs, w, False, 'Vec3')
            elif k == 'slerp_clamped':
                from .c12 import vslerp
                vslerp(ctx, key, rs, w, True, 'Vec3')
            elif k == 'homog':
                vec_eq(ctx, key, rs.only().ret, [(fn('idiv', x, A[3]) if ctx.elem == 'i32' else x / A[3]) for x in A], 'alg=: homogenised = v / w, each element divided by w (so w becomes 1; integers: truncating division, not a multiplication by 1/w)', w)
            elif k == 'isw':
                p = rs.only()
                ctx.ob(key, truth(p.ret) == approx_rel(A[3], C(m['x']), eps, eps), 'deleg: w compared with %d by relative_eq with the default tolerances' % m['x'], w, 'relative_eq(w, %d, eps, eps)' % m['x'], str(p.ret))
            elif k == 'ishom':
                pt = approx_rel(A[3], C(1), eps, eps); dr = approx_rel(A[3], C(0), eps, eps)
                outs = []
                for p in feasible_paths(rs):
                    if p.out != 'ret': outs.append(('panic',)); continue
                    conds = nonconst_conds(p); t = truth(p.ret)
                    outs.append((sorted(str(c) for c in conds), str(t)))
                exp = sorted([([str(pt)], 'True'), (sorted([str(pt.neg()), str(dr)]), 'True'), (sorted([str(pt.neg()), str(dr.neg())]), 'False')])
                alt = sorted([([str(pt)], 'True'), ([str(pt.neg())], str(dr))])
                ctx.ob(key, sorted(outs) == exp or sorted(outs) == alt, 'paths: is_homogeneous = is_point or is_direction', w, exp, sorted(outs))
        except (AssertionError, KeyError, ValueError, TypeError, IndexError, ZeroDivisionError, AttributeError) as e:
            ctx.ob(key + '/paths', False, 'path structure', w, 'analysable', str(e))
    ctx.floor('roots analysed', done, len(roots))
    ctx.floor('spatial vector kinds', len(kinds), 6 if ctx.tier == 'quick' else 9)
