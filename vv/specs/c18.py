"""C18 — element containers never duplicate, leak or touch a moved-out element."""
from ..run import Root, leaves, Ptr, Enum
from ..alg import C, sym, fn, Rat
from ..shapes import *
from ..core import eqv

ID = 'C18'

PRELUDE = r'''
pub struct DH(u64);
impl core::hash::Hasher for DH { fn finish(&self) -> u64 { 0 } fn write(&mut self, _b: &[u8]) {} }
pub type It<V> = <V as IntoIterator>::IntoIter;
'''

MAT_ELEMS = {n: ['m%d%d' % (i, j) for i in range(n) for j in range(n)] for n in (2, 3, 4)}


def toks(arg, K):
    return ['%s.%s' % (arg, f) for f in VEC_FIELDS[K][0]]


def pulls(f, b, extra=''):
    s = 'let mut it = v.into_iter();'
    s += ''.join(' let f%d = it.next();' % i for i in range(f))
    s += ''.join(' let b%d = it.next_back();' % i for i in range(b))
    return s + extra


def arr(prefix, n): return '[' + ', '.join('%s%d' % (prefix, i) for i in range(n)) + ']'


def iter_roots(K, quickish):
    """state-space roots of the consuming iterator of vector kind K"""
    N = vdim(K); V = '%s<Tok>' % K
    roots = []; meta = {}

    def add(name, code, **m):
        roots.append(Root(name, code, max_paths=4)); meta[name] = dict(m, K=K, N=N)

    states = [(f, b) for f in range(N + 1) for b in range(N + 1 - f)]
    if quickish and N > 8:
        # boundary band of the state space only (used for the wide vectors in the quick tier)
        states = [(f, b) for (f, b) in states if f <= 1 or b <= 1 or f + b >= N - 1]
        if N > 16:
            states = [(f, b) for (f, b) in states if (f <= 2 and b <= 2) or (f + b >= N - 1 and (f <= 2 or b <= 2 or abs(f - b) <= 1))]
    for f, b in states:
        t = '%s_%d_%d' % (K, f, b)
        add('r_obs_' + t,
            'pub fn r_obs_%s(v: %s, fm: &mut core::fmt::Formatter, h: &mut DH, o: %s) -> ([Option<Tok>; %d], [Option<Tok>; %d], usize, (usize, Option<usize>), core::fmt::Result, bool, bool) { %s '
            'let n = it.len(); let sh = it.size_hint(); let d = core::fmt::Debug::fmt(&it, fm); core::hash::Hash::hash(&it, h); let other = o.into_iter(); let e1 = it == other; let e2 = PartialEq::eq(&it, &it); '
            '(%s, %s, n, sh, d, e1, e2) }' % (t, V, V, f, b, pulls(f, b), arr('f', f), arr('b', b)), kind='obs', f=f, b=b)
        add('r_st_' + t, 'pub fn r_st_%s(v: %s) -> ([Option<Tok>; %d], [Option<Tok>; %d], It<%s>) { %s (%s, %s, it) }' % (t, V, f, b, V, pulls(f, b), arr('f', f), arr('b', b)), kind='st', f=f, b=b)
        if b >= 1 and f + b < N:
            add('r_stx_' + t, 'pub fn r_stx_%s(v: %s) -> ([Option<Tok>; %d], [Option<Tok>; %d], It<%s>) { %s (%s, %s, it) }' % (t, V, f + 1, b, V, pulls(f, b, ' let f%d = it.next();' % f), arr('f', f + 1), arr('b', b)), kind='stx', f=f, b=b)
        if f + b == N:
            add('r_end_' + t, 'pub fn r_end_%s(v: %s) -> ([Option<Tok>; 3], It<%s>) { %s let x0 = it.next(); let x1 = it.next_back(); let x2 = it.next(); ([x0, x1, x2], it) }' % (t, V, V, pulls(f, b)), kind='end', f=f, b=b)
    return roots, meta, states


def tokstr(x): return str(x)


def check_iter(ctx, sc, roots, meta, kinds_states):
    byname = {r.name: r for r in roots}
    res = {}
    for r in roots:
        rs = sc.get(r.name)
        if rs is None or not rs.ok: continue
        try: res[r.name] = rs.only()
        except (AssertionError, KeyError, ValueError, TypeError, IndexError, ZeroDivisionError, AttributeError) as e:
            ctx.ob('c18/iter/%s/one-path' % r.name[2:], False, 'the iterator methods are branch-free on a concrete cursor state', r.name, 1, str(e))
    for K, states in kinds_states.items():
        N = vdim(K); T = toks('a0', K)
        for (f, b) in states:
            t = '%s_%d_%d' % (K, f, b); key = 'c18/iter/%s/state(%d,%d)' % (K, f, b)
            live = T[f:N - b]; front = T[:f]; back = [T[N - 1 - j] for j in range(b)]
            # ---- yields, length reports, observers, drop
            p = res.get('r_obs_' + t)
            if p is not None:
                w = 'IntoIter of %s after %d front and %d back pulls' % (K, f, b)
                fy, by, n, sh, d, e1, e2 = p.ret
                ctx.ob(key + '/front-yields', [unopt(x) for x in fy] == front, 'perm: next() yields the elements in order from the front, each once', w, front, [unopt(x) for x in fy])
                ctx.ob(key + '/back-yields', [unopt(x) for x in by] == back, 'perm: next_back() yields the elements in order from the back, each once', w, back, [unopt(x) for x in by])
                rem = N - f - b
                ctx.ob(key + '/len', eqv(n, C(rem)), 'len() = number of elements not yet yielded', w, rem, n)
                ctx.ob(key + '/size_hint', eqv(sh[0], C(rem)) and isinstance(sh[1], Enum) and sh[1].var == 1 and eqv(sh[1].fields[0], C(rem)), 'size_hint() = (remaining, Some(remaining))', w, rem, sh)
                touched = [tokstr(p.term(e[1])) for e in p.ev('touch')]
                stale = sorted(set(x for x in touched if x in front or x in back))
                ctx.ob(key + '/observers-skip-yielded', not stale, 'own: Debug / Hash / PartialEq on the iterator read no element that was already yielded', w, 'no read of %s' % (front + back), 'reads of yielded elements: %s' % stale)
                bad = [e[1] for e in p.ev('badread')]
                ctx.ob(key + '/no-bad-read', not bad, 'own: no read of a moved-out or uninitialised slot', w, [], bad)
                dropped = [tokstr(p.term(e[1])) for e in p.ev('drop')]
                mine = sorted(x for x in dropped if x.startswith('a0.'))
                ctx.ob(key + '/drop-live-once', mine == sorted(live), 'own: dropping the iterator drops exactly the elements not yet yielded, each once', w, sorted(live), mine)
            # ---- state after the canonical history
            st = res.get('r_st_' + t)
            if st is not None:
                w = 'IntoIter state of %s' % K
                it = st.ret[2]
                l = leaves(it)
                ctx.ob(key + '/cursors', len(l) >= 2 and eqv(l[-2], C(f)) and eqv(l[-1], C(N - b)), 'cursor: front cursor = number of front pulls, back cursor = N - number of back pulls', w, (f, N - b), [str(x) for x in l[-2:]])
                nodrop = not st.ev('drop') and not st.ev('badread')
                ctx.ob(key + '/pulls-do-not-drop', nodrop, 'own: pulling elements drops nothing', w, [], st.ev('drop'))
            # ---- confluence: fronts and backs commute, so every interleaving reaches the canonical state
            sx = res.get('r_stx_' + t)
            if sx is not None:
                tgt = res.get('r_st_%s_%d_%d' % (K, f + 1, b))
                if tgt is None and ('r_st_%s_%d_%d' % (K, f + 1, b)) in byname: pass
                elif tgt is not None:
                    ctx.ob(key + '/front-after-back-commutes', eqv(sx.ret, tgt.ret), 'confluence: a front pull after back pulls reaches the same state and yields as pulling the fronts first', 'IntoIter of %s' % K, str(tgt.ret)[:200], str(sx.ret)[:200])
            en = res.get('r_end_' + t)
            if en is not None and st is not None:
                xs, it = en.ret
                ctx.ob(key + '/exhausted-yields-none', all(isinstance(x, Enum) and x.var == 0 for x in xs), 'exhausted iterator keeps returning None from both ends', 'IntoIter of %s' % K, 'None x3', xs)
                ctx.ob(key + '/exhausted-state-fixed', eqv(it, st.ret[2]), 'exhausted iterator does not move its cursors', 'IntoIter of %s' % K, str(st.ret[2])[:200], str(it)[:200])


def unopt(x):
    if isinstance(x, Enum) and x.var == 1 and len(x.fields) == 1: return str(x.fields[0])
    return 'None' if isinstance(x, Enum) and x.var == 0 else str(x)


# ------------------------------------------------------------------ conversions and views
def conv_roots(kinds):
    roots = []; meta = {}

    def add(name, code, **m):
        roots.append(Root(name, code, max_paths=8)); meta[name] = m

    for K in kinds:
        N = vdim(K); V = '%s<Tok>' % K
        tup = '(%s)' % ', '.join(['Tok'] * N) if N > 1 else '(Tok,)'
        add('r_fromarr_' + K, 'pub fn r_fromarr_%s(a: [Tok; %d]) -> %s { %s::from(a) }' % (K, N, V, K), kind='fromarr', K=K)
        add('r_intoarr_' + K, 'pub fn r_intoarr_%s(v: %s) -> [Tok; %d] { v.into_array() }' % (K, V, N), kind='ident', K=K)
        if True:
            add('r_intotup_' + K, 'pub fn r_intotup_%s(v: %s) -> %s { v.into_tuple() }' % (K, V, tup), kind='ident', K=K)
            add('r_fromtup_' + K, 'pub fn r_fromtup_%s(a: %s) -> %s { %s::from(a) }' % (K, tup, V, K), kind='fromtup', K=K)
        add('r_map_' + K, 'pub fn r_map_%s(v: %s) -> %s<core::mem::ManuallyDrop<Tok>> { v.map(core::mem::ManuallyDrop::new) }' % (K, V, K), kind='ident', K=K)
        add('r_roundtrip_' + K, 'pub fn r_roundtrip_%s(v: %s) -> %s { %s::from(v.into_array()) }' % (K, V, V, K), kind='ident', K=K)
        add('r_fromiter_' + K, 'pub fn r_fromiter_%s(v: %s) -> %s { v.into_iter().collect() }' % (K, V, V), kind='ident', K=K)
        add('r_fromiter_rev_' + K, 'pub fn r_fromiter_rev_%s(v: %s) -> %s { v.into_iter().rev().collect() }' % (K, V, V), kind='rev', K=K)
        add('r_zip_' + K, 'pub fn r_zip_%s(v: %s, w: %s) -> %s<(Tok, Tok)> { v.zip(w) }' % (K, V, V, K), kind='zip', K=K)
        # a source longer than the vector: exactly N elements are taken, the others stay in the source (by_ref), none is dropped on the way
        if N <= 16:
            add('r_fromiter_long_' + K, 'pub fn r_fromiter_long_%s(m: [Tok; %d]) -> (%s, Option<Tok>, Option<Tok>) { let mut it = m.into_iter(); let v: %s = it.by_ref().collect(); (v, it.next(), it.next()) }' % (K, N + 2, V, V), kind='fromlong', K=K)
        small = {'Vec3': 'Vec2', 'Vec4': 'Vec3', 'Extent3': 'Extent2', 'Rgba': 'Rgb', 'Uvw': 'Uv'}.get(K)
        if small in kinds:
            add('r_fromss_' + K, 'pub fn r_fromss_%s(a: (%s<Tok>, Tok)) -> %s { %s::from(a) }' % (K, small, V, K), kind='fromss', K=K, small=small)
        # views
        for nm, expr, mut in (('as_slice', 'v.as_slice()', ''), ('as_mut_slice', 'v.as_mut_slice()', 'mut '), ('deref', 'core::ops::Deref::deref(v)', ''), ('deref_mut', 'core::ops::DerefMut::deref_mut(v)', 'mut '),
                              ('as_ref', 'AsRef::<[Tok]>::as_ref(v)', ''), ('as_mut', 'AsMut::<[Tok]>::as_mut(v)', 'mut '), ('borrow', 'core::borrow::Borrow::<[Tok]>::borrow(v)', ''), ('borrow_mut', 'core::borrow::BorrowMut::<[Tok]>::borrow_mut(v)', 'mut ')):
            add('r_view_%s_%s' % (nm, K), 'pub fn r_view_%s_%s(v: &%s%s) -> &%s[Tok] { %s }' % (nm, K, mut, V, mut, expr), kind='view', K=K)
        add('r_selfref_' + K, 'pub fn r_selfref_%s(v: &%s) -> &%s { AsRef::<%s>::as_ref(v) }' % (K, V, V, V), kind='selfview', K=K)
        add('r_selfmut_' + K, 'pub fn r_selfmut_%s(v: &mut %s) -> &mut %s { AsMut::<%s>::as_mut(v) }' % (K, V, V, V), kind='selfview', K=K)
        # zero-sized element types: the views still have one entry per element (a length computed from byte sizes would be 0)
        add('r_zstlen_' + K, 'pub fn r_zstlen_%s(v: &mut %s<()>) -> (usize, usize, usize, usize, usize) { (v.as_slice().len(), v.iter().len(), AsRef::<[()]>::as_ref(v).len(), core::ops::Deref::deref(v).len(), v.as_mut_slice().len()) }' % (K, K), kind='zstlen', K=K)
        add('r_refiter_' + K, 'pub fn r_refiter_%s(v: &%s) -> [Option<&Tok>; %d] { let mut it = v.into_iter(); [%s] }' % (K, V, N + 1, ', '.join(['it.next()'] * (N + 1))), kind='refiter', K=K)
        add('r_refiter_mut_' + K, 'pub fn r_refiter_mut_%s(v: &mut %s) -> [Option<&mut Tok>; %d] { let mut it = v.into_iter(); [%s] }' % (K, V, N + 1, ', '.join(['it.next()'] * (N + 1))), kind='refiter', K=K)
    for L, n in MATS:
        M = '%s%d' % (L, n); MT = '%s<Tok>' % M
        for order in ('row', 'col'):
            add('r_m_into_%s_array_%s' % (order, M), 'pub fn r_m_into_%s_array_%s(m: %s) -> [Tok; %d] { m.into_%s_array() }' % (order, M, MT, n * n, order), kind='m_into', L=L, n=n, order=order)
            add('r_m_into_%s_arrays_%s' % (order, M), 'pub fn r_m_into_%s_arrays_%s(m: %s) -> [[Tok; %d]; %d] { m.into_%s_arrays() }' % (order, M, MT, n, n, order), kind='m_into', L=L, n=n, order=order)
            add('r_m_from_%s_array_%s' % (order, M), 'pub fn r_m_from_%s_array_%s(a: [Tok; %d]) -> %s { %s::from_%s_array(a) }' % (order, M, n * n, MT, M, order), kind='m_from', L=L, n=n, order=order)
            add('r_m_from_%s_arrays_%s' % (order, M), 'pub fn r_m_from_%s_arrays_%s(a: [[Tok; %d]; %d]) -> %s { %s::from_%s_arrays(a) }' % (order, M, n, n, MT, M, order), kind='m_from', L=L, n=n, order=order)
            add('r_m_rt_%s_%s' % (order, M), 'pub fn r_m_rt_%s_%s(m: %s) -> %s { %s::from_%s_arrays(m.into_%s_arrays()) }' % (order, M, MT, MT, M, order, order), kind='m_ident', L=L, n=n)
        add('r_m_transposed_' + M, 'pub fn r_m_transposed_%s(m: %s) -> %s { m.transposed() }' % (M, MT, MT), kind='m_transposed', L=L, n=n)
        add('r_m_new_' + M, 'pub fn r_m_new_%s(%s) -> %s { %s::new(%s) }' % (M, ', '.join('%s: Tok' % e for e in MAT_ELEMS[n]), MT, M, ', '.join(MAT_ELEMS[n])), kind='m_new', L=L, n=n)
        add('r_m_map_' + M, 'pub fn r_m_map_%s(m: %s) -> %s<core::mem::ManuallyDrop<Tok>> { m.map(core::mem::ManuallyDrop::new) }' % (M, MT, M), kind='m_ident', L=L, n=n)
        other = 'Cols' if L == 'Rows' else 'Rows'
        add('r_m_relayout_' + M, 'pub fn r_m_relayout_%s(m: %s) -> %s%d<Tok> { m.into() }' % (M, MT, other, n), kind='m_relayout', L=L, n=n)
    return roots, meta


def own_ok(ctx, key, p, w, expect_out, inputs, out=None):
    """conservation: every input token ends in exactly one output slot or is dropped exactly once; nothing is read after being moved"""
    out = [str(x) for x in (leaves(p.ret) if out is None else out)]
    dropped = [str(p.term(e[1])) for e in p.ev('drop')]
    bad = [e[1] for e in p.ev('badread')]
    ctx.ob(key + '/order', out == expect_out, 'perm: each element lands in its documented position', w, expect_out, out)
    counts = {t: out.count(t) + dropped.count(t) for t in inputs}
    wrong = {t: c for t, c in counts.items() if c != 1}
    ctx.ob(key + '/each-once', not wrong, 'own: every input element is moved to exactly one output slot or dropped exactly once (never duplicated, never leaked)', w, 'each input accounted once', wrong)
    ctx.ob(key + '/no-bad-read', not bad, 'own: no read of a moved-out or uninitialised slot', w, [], bad)


def check_conv(ctx, sc, roots, meta):
    for r in roots:
        rs = sc.get(r.name); m = meta[r.name]
        if rs is None or not rs.ok: continue
        key = 'c18/conv/' + r.name[2:]; w = r.code; k = m['kind']
        try: p = rs.only()
        except (AssertionError, KeyError, ValueError, TypeError, IndexError, ZeroDivisionError, AttributeError) as e:
            ctx.ob(key + '/one-path', False, 'conversions are branch-free', w, 1, str(e)); continue
        if 'K' in m:
            K = m['K']; N = vdim(K); T = toks('a0', K)
        if k == 'ident': own_ok(ctx, key, p, w, T, T)
        elif k == 'rev': own_ok(ctx, key, p, w, T[::-1], T)
        elif k == 'fromarr':
            a = ['a0[%d]' % i for i in range(N)]; own_ok(ctx, key, p, w, a, a)
        elif k == 'fromtup':
            a = ['a0.%d' % i for i in range(N)]; own_ok(ctx, key, p, w, a, a)
        elif k == 'fromlong':
            a = ['a0[%d]' % i for i in range(N + 2)]
            flat = list(leaves(p.ret[0]))
            for o in p.ret[1:]:
                flat += list(o.fields) if isinstance(o, Enum) and o.var == 1 else ['None']
            own_ok(ctx, key, p, w, a, a, out=flat)
        elif k == 'fromss':
            a = ['a0.0.%s' % f for f in VEC_FIELDS[m['small']][0]] + ['a0.1']; own_ok(ctx, key, p, w, a, a)
        elif k == 'zip':
            U = toks('a1', K); e = []
            for i in range(N): e += [T[i], U[i]]
            own_ok(ctx, key, p, w, e, T + U)
        elif k == 'view':
            ret = p.ret
            okp = isinstance(ret, Ptr) and ret.d.get('alloc') == 'arg:a0' and ret.d.get('path') in ('[]',) and int(ret.d.get('off', -1)) == 0 and ret.d.get('sl') == [1, N]
            ctx.ob(key + '/aliases-own-storage', okp, 'view: the slice starts at the value\'s own first element and has one entry per element', w, 'ptr to arg:a0 off 0 len %d' % N, repr(ret)[:200])
            got = [str(x) for x in leaves(ret.v)] if isinstance(ret, Ptr) and ret.v is not None else None
            ctx.ob(key + '/declaration-order', got == T, 'view: entry k of the slice is the k-th declared element', w, T, got)
            rsl = p.ev('rawslice')
            okr = bool(rsl) and all(e[3] == N and e[4] == 1 and e[5] == N for e in rsl)
            ctx.ob(key + '/exact-extent', okr, 'view: the raw slice covers exactly the value (stride 1 element, length = element count = storage size)', w, 'avail=%d stride=1 len=%d' % (N, N), rsl)
        elif k == 'zstlen':
            got = [str(x) for x in leaves(p.ret)]
            ctx.ob(key, got == [str(N)] * 5, 'view: for a zero-sized element type every slice view still has one entry per element', w, [N] * 5, got)
        elif k == 'selfview':
            ret = p.ret
            okp = isinstance(ret, Ptr) and ret.d.get('alloc') == 'arg:a0' and ret.d.get('path') in ('[]',) and int(ret.d.get('off', -1)) == 0 and not ret.d.get('sl')
            ctx.ob(key + '/is-self', okp, 'view: AsRef/AsMut to the vector type itself returns the value itself', w, 'ptr to arg:a0', repr(ret)[:200])
        elif k == 'refiter':
            xs = p.ret; got = []
            for x in xs:
                if isinstance(x, Enum) and x.var == 1 and isinstance(x.fields[0], Ptr): got.append((x.fields[0].d.get('alloc'), int(x.fields[0].d.get('off')) if x.fields[0].d.get('path') == '[]' else x.fields[0].d.get('path'), str(x.fields[0].v)))
                elif isinstance(x, Enum) and x.var == 0: got.append(None)
                else: got.append(repr(x))
            # element k: either flat offset k or a path [F(k)]
            ok = len(got) == N + 1 and got[-1] is None and all(g is not None and g[0] == 'arg:a0' and g[1] == i for i, g in enumerate(got[:-1]))
            ctx.ob(key + '/in-order', ok, 'view: borrowing iteration visits each element of the value once, in declaration order, then ends', w, T + ['None'], got)
        elif k.startswith('m_'):
            n = m['n']; L = m['L']
            fld = 'rows' if L == 'Rows' else 'cols'

            def mtok(arg, i, j):  # input token at (row i, col j) of a matrix argument
                a, b = (i, j) if L == 'Rows' else (j, i)
                return '%s.%s.%s.%s' % (arg, fld, XYZW[a], XYZW[b])
            ins = [mtok('a0', i, j) for i in range(n) for j in range(n)]
            if k == 'm_into':
                e = [mtok('a0', i, j) for i in range(n) for j in range(n)] if m['order'] == 'row' else [mtok('a0', i, j) for j in range(n) for i in range(n)]
                own_ok(ctx, key, p, w, e, ins)
            elif k == 'm_from':
                nested = 'arrays' in r.name
                def atok(i, j):
                    if m['order'] == 'row': return 'a0[%d][%d]' % (i, j) if nested else 'a0[%d]' % (i * n + j)
                    return 'a0[%d][%d]' % (j, i) if nested else 'a0[%d]' % (j * n + i)
                G = mgrid(p.ret, L, n)
                got = [str(G[i][j]) for i in range(n) for j in range(n)]; e = [atok(i, j) for i in range(n) for j in range(n)]
                ctx.ob(key + '/order', got == e, 'perm: array element lands at its documented (row, column)', w, e, got)
                own_ok(ctx, key + '/own', p, w, [str(x) for x in leaves(p.ret)], sorted(e))
            elif k == 'm_ident':
                own_ok(ctx, key, p, w, [str(sym(t)) for t in _storage(ins, L, n)], ins)
            elif k == 'm_transposed':
                G = mgrid(p.ret, L, n)
                got = [str(G[i][j]) for i in range(n) for j in range(n)]; e = [mtok('a0', j, i) for i in range(n) for j in range(n)]
                ctx.ob(key + '/order', got == e, 'perm: transposed()(i,j) = m(j,i)', w, e, got)
                own_ok(ctx, key + '/own', p, w, [str(x) for x in leaves(p.ret)], ins)
            elif k == 'm_new':
                G = mgrid(p.ret, L, n)
                got = [str(G[i][j]) for i in range(n) for j in range(n)]; e = ['a%d' % (i * n + j) for i in range(n) for j in range(n)]
                ctx.ob(key + '/order', got == e, 'perm: new(m00, m01, ...) fills (row, column) in reading order', w, e, got)
                own_ok(ctx, key + '/own', p, w, [str(x) for x in leaves(p.ret)], e)
            elif k == 'm_relayout':
                other = 'Cols' if L == 'Rows' else 'Rows'
                G = mgrid(p.ret, other, n)
                got = [str(G[i][j]) for i in range(n) for j in range(n)]
                ctx.ob(key + '/order', got == ins, 'perm: changing the layout keeps every (row, column)', w, ins, got)
                own_ok(ctx, key + '/own', p, w, [str(x) for x in leaves(p.ret)], ins)


# ------------------------------------------------------------------ unwinding and default iterator methods
def unwind_roots(kinds):
    """(a) the provided Iterator methods driven over a partly consumed consuming iterator (an override of nth / fold / last / count in vek is then
    interpreted and judged like next); (b) a user closure that panics in the middle (`maybe_unwind()` forks: returns, or unwinds through
    the cleanup edges of every frame): no element may be dropped twice or read after it was moved, whatever the moment of the panic"""
    roots = []; meta = {}

    def add(name, code, mp, **m):
        roots.append(Root(name, code, max_paths=mp)); meta[name] = m

    for K in kinds:
        N = vdim(K); V = '%s<Tok>' % K
        states = [(0, 0), (1, 0), (0, 1), (1, 1)] if N <= 8 else [(N - 2, 0), (0, N - 2), (N - 3, 1)]
        states = [(f, b) for f, b in states if f + b <= N]
        for f, b in states:
            rem = N - f - b; tag = '%s_%d_%d' % (K, f, b)
            pre = pulls(f, b)
            add('r_u_fold_' + tag, 'pub fn r_u_fold_%s(v: %s) { %s it.fold((), |(), t| { maybe_unwind(); drop(t) }) }' % (tag, V, pre), rem + 2, kind='unw', K=K, f=f, b=b)
            add('r_u_foreach_' + tag, 'pub fn r_u_foreach_%s(v: %s) { %s it.for_each(|t| { maybe_unwind(); drop(t) }) }' % (tag, V, pre), rem + 2, kind='unw', K=K, f=f, b=b)
            add('r_u_nth_' + tag, 'pub fn r_u_nth_%s(v: %s) -> (Option<Tok>, Option<Tok>) { %s let x = it.nth(1); let y = it.next(); (x, y) }' % (tag, V, pre), 4, kind='adapt', K=K, f=f, b=b)
            add('r_u_last_' + tag, 'pub fn r_u_last_%s(v: %s) -> Option<Tok> { %s it.last() }' % (tag, V, pre), 4, kind='adapt', K=K, f=f, b=b)
            add('r_u_count_' + tag, 'pub fn r_u_count_%s(v: %s) -> usize { %s it.count() }' % (tag, V, pre), 4, kind='count', K=K, f=f, b=b)
        if N <= 8:
            add('r_u_map_' + K, 'pub fn r_u_map_%s(v: %s) -> %s { v.map(|t| { maybe_unwind(); t }) }' % (K, V, V), N + 2, kind='unw', K=K, f=0, b=0)
            add('r_u_fromiter_' + K, 'pub fn r_u_fromiter_%s(a: [Tok; %d]) -> %s { a.into_iter().map(|t| { maybe_unwind(); t }).collect() }' % (K, N, V), N + 2, kind='unw_arr', K=K, f=0, b=0)
    return roots, meta


def _flat(x):
    if isinstance(x, list): return [y for e in x for y in _flat(e)]
    if isinstance(x, Enum): return [y for e in x.fields for y in _flat(e)]
    if isinstance(x, Ptr): return _flat(x.v)
    return [] if x is None else [str(x)]


def check_unwind(ctx, sc, roots, meta):
    nunw = 0
    for r in roots:
        rs = sc.get(r.name); m = meta[r.name]
        if rs is None or not rs.ok: continue
        K = m['K']; N = vdim(K); key = 'c18/unwind/' + r.name[4:]; w = r.code; k = m['kind']
        T = ['a0[%d]' % i for i in range(N)] if k == 'unw_arr' else toks('a0', K)
        rets = [p for p in rs.paths if p.out == 'ret']; unws = [p for p in rs.paths if p.out == 'unwind']
        ctx.ob(key + '/outcomes', len(rets) == 1 and len(rets) + len(unws) == len(rs.paths), 'paths: one returning outcome, the others are unwinding from the user closure', w, 'ret + unwinds', [p.out for p in rs.paths])
        rem = N - m['f'] - m['b']
        if k in ('unw', 'unw_arr'):
            ctx.ob(key + '/every-panic-point', len(unws) == (rem if k == 'unw' else N), 'paths: the closure is called once per remaining element, so there is one unwinding outcome per element', w, rem if k == 'unw' else N, len(unws))
        for i, p in enumerate(rs.paths):
            if p.out not in ('ret', 'unwind'): continue
            dropped = [str(p.term(e[1])) for e in p.ev('drop')]
            bad = [e[1] for e in p.ev('badread')]
            out = _flat(p.ret) if p.out == 'ret' else []
            out = [o for o in out if o in T]
            counts = {t: out.count(t) + dropped.count(t) for t in T}
            pk = '%s/%s%d' % (key, p.out, i)
            if p.out == 'ret':
                wrong = {t: c for t, c in counts.items() if c != 1}
                ctx.ob(pk + '/each-once', not wrong, 'own: every element is yielded / returned once or dropped once (provided iterator methods and closure-taking methods included)', w, 'each accounted once', wrong)
            else:
                nunw += 1
                wrong = {t: c for t, c in counts.items() if c > 1}
                ctx.ob(pk + '/no-double-drop', not wrong, 'own (unwinding): when the user closure panics, no element is dropped twice, whatever the moment of the panic', w, 'each dropped at most once', wrong)
            ctx.ob(pk + '/no-bad-read', not bad, 'own: no read of a moved-out or uninitialised slot', w, [], bad)
        if k == 'count' and rets:
            ctx.ob(key + '/value', str(rets[0].ret) == str(rem), 'count() of the consuming iterator is the number of remaining elements', w, rem, str(rets[0].ret))
        if k == 'adapt' and rets and r.name.startswith('r_u_nth'):
            seq = T[m['f']:N - m['b']]
            exp = [seq[1] if len(seq) > 1 else 'None', seq[2] if len(seq) > 2 else 'None']
            got = [unopt(x) for x in rets[0].ret]
            ctx.ob(key + '/value', got == exp, 'nth(1) yields the second remaining element and the next pull the third', w, exp, got)
        if k == 'adapt' and rets and r.name.startswith('r_u_last'):
            seq = T[m['f']:N - m['b']]
            ctx.ob(key + '/value', unopt(rets[0].ret) == (seq[-1] if seq else 'None'), 'last() yields the last remaining element', w, seq[-1] if seq else 'None', unopt(rets[0].ret))
    ctx.counts['unwinding outcomes analysed'] = nunw


def _storage(ins, L, n):
    """input tokens (listed in (row, col) reading order) in storage order"""
    if L == 'Rows': return ins
    return [ins[i * n + j] for j in range(n) for i in range(n)]


def check_local(ctx, sc, all_roots):
    """who-may-access: every body of crate vek that touches the iterator's storage or writes a cursor must be one the model check above has interpreted"""
    if not getattr(sc, 'local', None):
        ctx.internal.append('local-mode facts missing (the driver did not see crate vek)'); return
    loc = sc.local[0]
    visited = set()
    for r in all_roots:
        rs = sc.get(r.name)
        if rs is not None: visited |= set(rs.d.get('visited', []))
    structs = loc.get('intoiter_structs', {})
    for path, fields in structs.items():
        key = 'c18/local/struct' + path
        names = [f[0] for f in fields]
        ctx.ob(key + '/fields-private', all(f[1] != 'Public' for f in fields), 'local: the cursor and storage fields of the consuming iterator are private (no code outside the crate can break the invariant)', path, 'no public field', fields)
        st = [f for f in fields if 'ManuallyDrop' in f[2]]
        ctx.ob(key + '/storage-is-manually-drop', len(st) == 1, 'local: the element storage is ManuallyDrop (drop glue never touches a yielded slot)', path, 'one ManuallyDrop storage field', fields)
    acc = loc.get('intoiter_access', [])
    bodies = {}
    for body, readable, adt, field, mut in acc:
        sensitive = ('ManuallyDrop' in next((f[2] for f in structs.get(adt, []) if f[0] == field), '')) or mut
        if sensitive: bodies.setdefault((body, readable, adt), set()).add(field + ('(write)' if mut else ''))
    for (body, readable, adt), fields in sorted(bodies.items()):
        ctx.ob('c18/local/accessor/%s' % readable, body in visited, 'local who-may-access: every body that reads the iterator storage or writes a cursor is interpreted by the state-space check (an accessor outside it is unaudited)', readable, 'interpreted by some root', 'not reached by any root; touches %s of %s' % (sorted(fields), adt))
    ctx.floor('consuming-iterator structs found in crate vek', len(structs), 13)
    ctx.floor('accessor bodies of iterator storage/cursors', len(bodies), 13 * 4)
    ctx.floor('bodies of crate vek scanned', loc.get('bodies', 0), 4000)


def run(ctx):
    ctx.level = 'proof'
    ctx.explanation = ('(1) The consuming iterator of every vector type is model-checked over its MIR with an ownership-tracked element type: for every reachable cursor state (f front pulls, b back pulls) the yields, '
                       'len/size_hint, the elements read by Debug/Hash/PartialEq, and the elements dropped when the iterator is dropped there are computed; a confluence obligation (a front pull after back pulls reaches '
                       'the same abstract state as pulling the fronts first) and the fixed point at exhaustion make the canonical states cover every interleaving of next/next_back, by induction on the history length. '
                       '(2) Array / nested array / tuple / iterator conversions of vectors and matrices are interpreted with the same element type: every input element must reach exactly one output slot in the documented '
                       'order or be dropped exactly once. (3) Slice views must point at the value\'s own first element with length = element count = storage size.')
    ctx.assumptions = ['panics inside user closures are followed through the cleanup edges for fold / for_each / map / collect (one panic point per element); panics raised by vek itself end the path', 'the abstract iterator state is (storage slots, front cursor, back cursor): the three fields of the struct; equal abstract states have equal futures because the interpreter is deterministic']
    quick = ctx.tier == 'quick'
    feats = ALL_FEATURES
    kinds = vec_kinds(feats)
    roots = []; meta = {}; kinds_states = {}
    for K in kinds:
        N = vdim(K)
        r, m, st = iter_roots(K, quickish=quick)
        roots += r; meta.update(m); kinds_states[K] = st
    croots, cmeta = conv_roots(kinds)
    uroots, umeta = unwind_roots(kinds)
    sc = ctx.scan(roots + croots + uroots, feats, extra_prelude=PRELUDE, local=True)
    if sc.compile_error: return
    check_iter(ctx, sc, roots, meta, kinds_states)
    check_conv(ctx, sc, croots, cmeta)
    check_unwind(ctx, sc, uroots, umeta)
    if not ctx.only: check_local(ctx, sc, roots + croots + uroots)
    ctx.floor('iterator states analysed', sum(len(v) for v in kinds_states.values()), 220 if quick else 2992)
    ctx.floor('vector kinds with a model-checked iterator', len(kinds_states), 11 if quick else 13)
    ctx.floor('conversion / view roots', len(croots), 386)
