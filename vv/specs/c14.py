"""C14 — Bezier evaluate / derivative / split / conversions obey the Bernstein identities."""
from math import comb
from ..run import Root, leaves
from ..alg import C, sym, fn, sqrt, atom_in
from ..shapes import *

ID = 'C14'

CURVES = [('QuadraticBezier2', 2, 2), ('QuadraticBezier3', 2, 3), ('CubicBezier2', 3, 2), ('CubicBezier3', 3, 3)]
CTRL = {2: ['start', 'ctrl', 'end'], 3: ['start', 'ctrl0', 'ctrl1', 'end']}
AX = 'xyz'


def cps(arg, deg, dim):
    """control points P[k][axis] as input symbols"""
    return [[sym('%s.%s.%s' % (arg, c, AX[a])) for a in range(dim)] for c in CTRL[deg]]


def bern(P, t):
    n = len(P) - 1; dim = len(P[0])
    one = C(1)
    out = []
    for a in range(dim):
        s = C(0)
        for k in range(n + 1):
            term = C(comb(n, k)) * P[k][a]
            for _ in range(n - k): term = term * (one - t)
            for _ in range(k): term = term * t
            s = s + term
        out.append(s)
    return out


def build_roots():
    roots = []; meta = {}

    def add(name, code, **m):
        roots.append(Root(name, code)); meta[name] = m

    for B, deg, dim in CURVES:
        Bt = '%s<f32>' % B; P = 'Vec%d<f32>' % dim; tag = ('Q' if deg == 2 else 'C') + str(dim)
        m = dict(B=B, deg=deg, dim=dim)
        add('r_eval_%s' % tag, 'pub fn r_eval_%s(c: %s, t: f32) -> %s { c.evaluate(t) }' % (tag, Bt, P), kind='eval', **m)
        add('r_deriv_%s' % tag, 'pub fn r_deriv_%s(c: %s, t: f32) -> %s { c.evaluate_derivative(t) }' % (tag, Bt, P), kind='deriv', **m)
        add('r_ntan_%s' % tag, 'pub fn r_ntan_%s(c: %s, t: f32) -> %s { c.normalized_tangent(t) }' % (tag, Bt, P), kind='ntan', **m)
        add('r_split0_%s' % tag, 'pub fn r_split0_%s(c: %s, t: f32, u: f32) -> %s { c.split(t)[0].evaluate(u) }' % (tag, Bt, P), kind='split0', **m)
        add('r_split1_%s' % tag, 'pub fn r_split1_%s(c: %s, t: f32, u: f32) -> %s { c.split(t)[1].evaluate(u) }' % (tag, Bt, P), kind='split1', **m)
        add('r_split_%s' % tag, 'pub fn r_split_%s(c: %s, t: f32) -> [%s; 2] { c.split(t) }' % (tag, Bt, Bt), kind='split', **m)
        add('r_matrix_%s' % tag, 'pub fn r_matrix_%s() -> Rows%d<f32> { %s::<f32>::matrix() }' % (tag, deg + 1, B), kind='matrix', **m)
        add('r_rev_%s' % tag, 'pub fn r_rev_%s(c: %s, t: f32) -> %s { c.reversed().evaluate(t) }' % (tag, Bt, P), kind='rev', **m)
        add('r_revip_%s' % tag, 'pub fn r_revip_%s(c: %s, t: f32) -> %s { let mut d = c; d.reverse(); d.evaluate(t) }' % (tag, Bt, P), kind='rev', **m)
        add('r_seg_%s' % tag, 'pub fn r_seg_%s(s: LineSegment%d<f32>, t: f32) -> %s { %s::from(s).evaluate(t) }' % (tag, dim, P, B), kind='seg', **m)
        add('r_range_%s' % tag, 'pub fn r_range_%s(a: %s, b: %s, t: f32) -> %s { %s::from(a..b).evaluate(t) }' % (tag, P, P, P, B), kind='range', **m)
        if deg == 2:
            add('r_elev_%s' % tag, 'pub fn r_elev_%s(c: %s, t: f32) -> %s { c.into_cubic().evaluate(t) }' % (tag, Bt, P), kind='elev', **m)
            add('r_elevf_%s' % tag, 'pub fn r_elevf_%s(c: %s, t: f32) -> %s { CubicBezier%d::from(c).evaluate(t) }' % (tag, Bt, P, dim), kind='elev', **m)
            add('r_vec_%s' % tag, 'pub fn r_vec_%s(c: %s) -> (Vec3<%s>, (%s,%s,%s), [%s;3], %s) { (c.into_vec3(), c.into_tuple(), c.into_array(), %s::from(c.into_vec3())) }' % (tag, Bt, P, P, P, P, P, Bt, B), kind='vec', **m)
        else:
            add('r_vec_%s' % tag, 'pub fn r_vec_%s(c: %s) -> (Vec4<%s>, (%s,%s,%s,%s), [%s;4], %s) { (c.into_vec4(), c.into_tuple(), c.into_array(), %s::from(c.into_vec4())) }' % (tag, Bt, P, P, P, P, P, P, Bt, B), kind='vec', **m)
        for ax in AX[:dim]:
            add('r_flip%s_%s' % (ax, tag), 'pub fn r_flip%s_%s(c: %s) -> %s { c.flipped_%s() }' % (ax, tag, Bt, Bt, ax), kind='flip', ax=AX.index(ax), **m)
            add('r_flipip%s_%s' % (ax, tag), 'pub fn r_flipip%s_%s(c: %s) -> %s { let mut d = c; d.flip_%s(); d }' % (ax, tag, Bt, Bt, ax), kind='flip', ax=AX.index(ax), **m)
        other = B[:-1] + ('3' if dim == 2 else '2')
        add('r_dim_%s' % tag, 'pub fn r_dim_%s(c: %s) -> (%s<f32>, %s<f32>) { (c.into_%dd(), %s::from(c)) }' % (tag, Bt, other, other, 5 - dim, other), kind='dim', **m)
        for L in ('Rows', 'Cols'):
            add('r_mul_%s_%s' % (tag, L), 'pub fn r_mul_%s_%s(m: %s%d<f32>, c: %s, t: f32) -> %s { (m * c).evaluate(t) }' % (tag, L, L, dim, Bt, P), kind='mul', l=L, **m)
            add('r_mulaff_%s_%s' % (tag, L), 'pub fn r_mulaff_%s_%s(m: %s%d<f32>, c: %s, t: f32) -> %s { (m * c).evaluate(t) }' % (tag, L, L, dim + 1, Bt, P), kind='mulaff', l=L, **m)
    for dim in (2, 3):
        add('r_quarter_%d' % dim, 'pub fn r_quarter_%d() -> CubicBezier%d<f32> { CubicBezier%d::unit_quarter_circle() }' % (dim, dim, dim), kind='quarter', dim=dim)
        add('r_circle_%d' % dim, 'pub fn r_circle_%d() -> [CubicBezier%d<f32>; 4] { CubicBezier%d::unit_circle() }' % (dim, dim, dim), kind='circle', dim=dim)
    return roots, meta


def chunks(l, n): return [l[i:i + n] for i in range(0, len(l), n)]


def quarter_bound(ctx, key, P, w):
    """|B(t)|^2 - 1 on [0,1] for the computed control points: exact polynomial in t over Q(sqrt 2), bounded by interval
    subdivision with outward-rounded rational enclosures of sqrt(2). Decides 'within 0.03% of radius 1' for the control points the code produces."""
    from fractions import Fraction
    from ..alg import _ATOMS
    t = sym('t')
    pt = bern([p[:2] for p in P], t)
    r2 = pt[0] * pt[0] + pt[1] * pt[1]
    if not r2.is_poly(): return ctx.ob(key, False, 'bound', w, 'polynomial radius', str(r2))
    ta = atom_in('t')
    # coefficients in t: dict power -> (lo, hi) enclosure using sqrt2 in [s_lo, s_hi]
    s_lo = Fraction(14142135623730950, 10 ** 16); s_hi = Fraction(14142135623730951, 10 ** 16)
    coef = {}
    for mono, c in r2.num.t.items():
        pw = 0; lo = hi = c
        for (a, e) in mono:
            if a == ta: pw = e; continue
            k, n, args = _ATOMS[a]
            if k == 'fn' and n == 'sqrt' and args[0].is_const() and args[0].const_value() == 2 and e == 1:
                cands = [lo * s_lo, lo * s_hi, hi * s_lo, hi * s_hi]; lo, hi = min(cands), max(cands)
            else:
                return ctx.ob(key, False, 'bound', w, 'polynomial in t over Q(sqrt 2)', str(r2))
        a0, b0 = coef.get(pw, (Fraction(0), Fraction(0)))
        coef[pw] = (a0 + lo, b0 + hi)
    # radius within 0.03%: r in [1-3e-4, 1+3e-4]  <=>  r^2 in [(1-3e-4)^2, (1+3e-4)^2]
    lo_ok = (1 - Fraction(3, 10000)) ** 2; hi_ok = (1 + Fraction(3, 10000)) ** 2

    def enclose(a, b):
        # Horner-free interval evaluation: sum of coefficient interval * [a^k, b^k]
        lo = hi = Fraction(0)
        for pw, (cl, ch) in coef.items():
            tl, th = a ** pw, b ** pw
            cands = [cl * tl, cl * th, ch * tl, ch * th]
            lo += min(cands); hi += max(cands)
        return lo, hi
    stack = [(Fraction(0), Fraction(1))]; pieces = 0
    while stack:
        a, b = stack.pop(); pieces += 1
        lo, hi = enclose(a, b)
        if lo >= lo_ok and hi <= hi_ok: continue
        if b - a < Fraction(1, 2 ** 20) or pieces > 200000:
            return ctx.ob(key, False, 'bound: |B(t)| within 0.03% of 1 on [0,1] (interval subdivision of the exact radius polynomial)', w, '[%s, %s]' % (float(lo_ok), float(hi_ok)), 'r^2 in [%s, %s] on [%s, %s]' % (float(lo), float(hi), float(a), float(b)))
        mid = (a + b) / 2
        stack.append((a, mid)); stack.append((mid, b))
    ctx.counts['quarter_circle_intervals'] = pieces
    return ctx.ob(key, True, 'bound: |B(t)| within 0.03% of 1 on [0,1] (interval subdivision of the exact radius polynomial of the computed control points)', w, None, '%d intervals' % pieces)


def run(ctx):
    ctx.level = 'proof'
    ctx.explanation = ('Quadratic/Cubic x 2D/3D: evaluate is interpreted over its MIR and must equal the Bernstein polynomial of the control points; evaluate_derivative must equal the formal t-derivative of the computed evaluate; '
                       'split halves evaluated at u must equal the curve at t*u and t+(1-t)*u and meet at evaluate(t); degree elevation, line-segment/range conversion, coefficient matrix, reversal, 2D<->3D, flips and '
                       'matrix multiplication (linear and affine, both layouts) must preserve the curve as a polynomial identity in all control points, t, u and matrix entries; the unit quarter circle has the textbook control points and '
                       'its exact radius polynomial stays within 0.03% of 1 on [0,1] (rational interval subdivision).')
    ctx.assumptions = ['f32 operations read as exact field operations']
    roots, meta = build_roots()
    sc = ctx.scan(roots, QUICK_FEATURES)
    if sc.compile_error: return
    done = 0
    t = sym('a1'); u = sym('a2')
    for r in roots:
        rs = sc.get(r.name); m = meta[r.name]
        if rs is None or not rs.ok: continue
        done += 1
        k = m['kind']; key = 'c14/' + r.name[2:]; w = r.code
        try: p = rs.only()
        except (AssertionError, KeyError, ValueError, TypeError, IndexError, ZeroDivisionError, AttributeError) as e:
            ctx.ob(key + '/paths', False, 'branch-free', w, 'one path', str(e)); continue
        if k in ('quarter', 'circle'):
            dim = m['dim']
            kap = C(4) * (sqrt(C(2)) - C(1)) / C(3)
            base = [[C(1), C(0)], [C(1), kap], [kap, C(1)], [C(0), C(1)]]

            def emb(pts, sx=1, sy=1): return [[C(sx) * q[0], C(sy) * q[1]] + ([C(0)] if dim == 3 else []) for q in pts]
            if k == 'quarter':
                vec_eq(ctx, key, p.ret, sum(emb(base), []), 'alg=: control points (1,0),(1,k),(k,1),(0,1) with k = 4(sqrt2-1)/3', w)
                got = chunks(leaves(p.ret), dim)
                if len(got) == 4: quarter_bound(ctx, key + '/radius-bound', got, w)
            else:
                exp = emb(base) + emb(base, -1, 1) + emb(base, -1, -1) + emb(base, 1, -1)
                vec_eq(ctx, key, p.ret, sum(exp, []), 'alg=: unit circle = quarter circle and its three axis reflections', w)
            continue
        deg, dim = m['deg'], m['dim']
        P = cps('a0', deg, dim)
        if k == 'eval':
            vec_eq(ctx, key, p.ret, bern(P, t), 'alg=: evaluate = sum_k C(n,k)(1-t)^(n-k) t^k P_k', w)
        elif k == 'deriv':
            ev = sc.get(r.name.replace('deriv', 'eval'))
            if ev is None or not ev.ok: continue
            e = leaves(ev.only().ret)
            vec_eq(ctx, key, p.ret, [x.diff(atom_in('a1')) for x in e], 'alg≡: evaluate_derivative = d/dt of the computed evaluate', w)
        elif k == 'ntan':
            d = [x.diff(atom_in('a1')) for x in bern(P, t)]
            n = sqrt(sum_(x * x for x in d))
            vec_eq(ctx, key, p.ret, [x / n for x in d], 'alg=: normalized_tangent = derivative / |derivative|', w)
        elif k == 'split0':
            vec_eq(ctx, key, p.ret, bern(P, t * u), 'alg=: split(t)[0].evaluate(u) = evaluate(t*u)', w)
        elif k == 'split1':
            vec_eq(ctx, key, p.ret, bern(P, t + (C(1) - t) * u), 'alg=: split(t)[1].evaluate(u) = evaluate(t + (1-t)u)', w)
        elif k == 'split':
            l = chunks(leaves(p.ret), dim); n1 = deg + 1
            first, second = l[:n1], l[n1:]
            at = bern(P, t)
            vec_eq(ctx, key + '/first-starts-at-start', first[0], P[0], 'alg=: first half starts at the curve start', w)
            vec_eq(ctx, key + '/first-ends-at-t', first[-1], at, 'alg=: first half ends at evaluate(t)', w)
            vec_eq(ctx, key + '/second-starts-at-t', second[0], at, 'alg=: second half starts at evaluate(t)', w)
            vec_eq(ctx, key + '/second-ends-at-end', second[-1], P[-1], 'alg=: second half ends at the curve end', w)
        elif k == 'matrix':
            n1 = deg + 1
            G = mgrid(p.ret, 'Rows', n1)
            tt = sym('t'); pw = [C(1)]
            for _ in range(deg): pw.append(pw[-1] * tt)
            Q = [[sym('p%d' % kk)] for kk in range(n1)]
            row = vecmat(pw, G)
            val = sum_(row[kk] * Q[kk][0] for kk in range(n1))
            ctx.same(key, val, bern(Q, tt)[0], 'alg=: [1,t,..,t^n] * matrix() * P = evaluate(t)', w)
        elif k == 'rev':
            vec_eq(ctx, key, p.ret, bern(P, C(1) - t), 'alg=: reversed().evaluate(t) = evaluate(1-t)', w)
        elif k == 'seg':
            a = [sym('a0.start.' + AX[i]) for i in range(dim)]; b = [sym('a0.end.' + AX[i]) for i in range(dim)]
            vec_eq(ctx, key, p.ret, [x + (y - x) * t for x, y in zip(a, b)], 'alg=: curve from a line segment evaluates to start + (end-start) t', w)
        elif k == 'range':
            a = [sym('a0.' + AX[i]) for i in range(dim)]; b = [sym('a1.' + AX[i]) for i in range(dim)]; tt = sym('a2')
            vec_eq(ctx, key, p.ret, [x + (y - x) * tt for x, y in zip(a, b)], 'alg=: curve from a range evaluates to start + (end-start) t', w)
        elif k == 'elev':
            vec_eq(ctx, key, p.ret, bern(P, t), 'alg=: degree elevation preserves the curve', w)
        elif k == 'vec':
            flat = sum(P, [])
            for i, part in enumerate(p.ret):
                vec_eq(ctx, '%s/%d' % (key, i), part, flat, 'perm: control points in order start, ctrl.., end', w)
        elif k == 'flip':
            exp = [[-x if a == m['ax'] else x for a, x in enumerate(q)] for q in P]
            vec_eq(ctx, key, p.ret, sum(exp, []), 'perm: axis flip negates that coordinate of every control point', w)
        elif k == 'dim':
            if dim == 2: exp = sum([q + [C(0)] for q in P], [])
            else: exp = sum([q[:2] for q in P], [])
            for i, part in enumerate(p.ret):
                vec_eq(ctx, '%s/%d' % (key, i), part, exp, 'perm: 2D<->3D conversion keeps x,y of every control point (z = 0 / dropped)', w)
        elif k in ('mul', 'mulaff'):
            n = dim if k == 'mul' else dim + 1
            Mx = msyms('a0', m['l'], n)
            Pc = cps('a1', deg, dim); tt = sym('a2')
            e = bern(Pc, tt)
            if k == 'mulaff': e = e + [C(1)]
            exp = matvec(Mx, e)[:dim]
            vec_eq(ctx, key, p.ret, exp, 'alg=: (M * curve).evaluate(t) = M applied to curve.evaluate(t) (%s)' % ('linear' if k == 'mul' else 'affine, w = 1'), w)
    ctx.floor('roots analysed', done, len(roots))
    ctx.floor('obligations', ctx.obligations, 400)
