"""C19 — vector kind/size conversions, swizzles, shuffles, colour helpers keep elements."""
import itertools
from ..run import Root, leaves, Ptr, Enum
from ..alg import C, sym, fn, Rat
from ..shapes import *

ID = 'C19'

Z = 'ZERO'; F = 'FULL'
# From<Src> for Dst: list of source field names / constants per destination slot
CONV = [
    ('Vec2', 'Vec3', ['x', 'y']), ('Vec2', 'Vec4', ['x', 'y']), ('Vec2', 'Extent2', ['w', 'h']),
    ('Vec3', 'Vec2', ['x', 'y', Z]), ('Vec3', 'Vec4', ['x', 'y', 'z']), ('Vec3', 'Extent3', ['w', 'h', 'd']), ('Vec3', 'Rgb', ['r', 'g', 'b']), ('Vec3', 'Uvw', ['u', 'v', 'w']),
    ('Vec4', 'Vec3', ['x', 'y', 'z', Z]), ('Vec4', 'Vec2', ['x', 'y', Z, Z]), ('Vec4', 'Rgba', ['r', 'g', 'b', 'a']),
    ('Extent3', 'Vec3', ['x', 'y', 'z']), ('Extent2', 'Vec2', ['x', 'y']),
    ('Rgba', 'Vec4', ['x', 'y', 'z', 'w']), ('Rgba', 'Rgb', ['r', 'g', 'b', F]), ('Rgb', 'Vec3', ['x', 'y', 'z']), ('Rgb', 'Rgba', ['r', 'g', 'b']),
    ('Uvw', 'Vec3', ['x', 'y', 'z']), ('Uv', 'Vec2', ['x', 'y']),
]
SMALLER = [('Vec3', 'Vec2'), ('Vec4', 'Vec3'), ('Extent3', 'Extent2'), ('Rgba', 'Rgb'), ('Uvw', 'Uv')]
SWIZZLE = [
    ('Vec2', 'yx', 'Vec2', ['y', 'x']), ('Vec3', 'zyx', 'Vec3', ['z', 'y', 'x']), ('Vec3', 'xy', 'Vec2', ['x', 'y']),
    ('Vec4', 'wxyz', 'Vec4', ['w', 'x', 'y', 'z']), ('Vec4', 'wzyx', 'Vec4', ['w', 'z', 'y', 'x']), ('Vec4', 'zyxw', 'Vec4', ['z', 'y', 'x', 'w']),
    ('Vec4', 'xyz', 'Vec3', ['x', 'y', 'z']), ('Vec4', 'xy', 'Vec2', ['x', 'y']), ('Rgba', 'rgb', 'Rgb', ['r', 'g', 'b']),
    ('Rgba', 'shuffled_argb', 'Rgba', ['a', 'r', 'g', 'b']), ('Rgba', 'shuffled_bgra', 'Rgba', ['b', 'g', 'r', 'a']), ('Rgb', 'shuffled_bgr', 'Rgb', ['b', 'g', 'r']),
]
WITH = [
    ('Vec2', 'with_x', 'Vec2', ['S', 'y']), ('Vec2', 'with_y', 'Vec2', ['x', 'S']), ('Vec2', 'with_z', 'Vec3', ['x', 'y', 'S']), ('Vec2', 'with_w', 'Vec4', ['x', 'y', Z, 'S']),
    ('Vec3', 'with_x', 'Vec3', ['S', 'y', 'z']), ('Vec3', 'with_y', 'Vec3', ['x', 'S', 'z']), ('Vec3', 'with_z', 'Vec3', ['x', 'y', 'S']), ('Vec3', 'with_w', 'Vec4', ['x', 'y', 'z', 'S']),
    ('Vec4', 'with_x', 'Vec4', ['S', 'y', 'z', 'w']), ('Vec4', 'with_y', 'Vec4', ['x', 'S', 'z', 'w']), ('Vec4', 'with_z', 'Vec4', ['x', 'y', 'S', 'w']), ('Vec4', 'with_w', 'Vec4', ['x', 'y', 'z', 'S']),
]
# unit vectors / direction names: name -> per-type expected constants
def units():
    out = []
    e = lambda n, i, s=1: [C(s) if k == i else C(0) for k in range(n)]
    for K, n in (('Vec2', 2), ('Vec3', 3), ('Vec4', 4)):
        out += [(K, 'unit_x', e(n, 0)), (K, 'unit_y', e(n, 1)), (K, 'left', e(n, 0, -1)), (K, 'right', e(n, 0)), (K, 'up', e(n, 1)), (K, 'down', e(n, 1, -1))]
        if n >= 3:
            out += [(K, 'unit_z', e(n, 2)), (K, 'forward_lh', e(n, 2)), (K, 'forward_rh', e(n, 2, -1)), (K, 'back_lh', e(n, 2, -1)), (K, 'back_rh', e(n, 2))]
    out.append(('Vec4', 'unit_w', e(4, 3)))
    pt = lambda i, s=1: [C(s) if k == i else (C(1) if k == 3 else C(0)) for k in range(4)]
    out += [('Vec4', 'unit_x_point', pt(0)), ('Vec4', 'unit_y_point', pt(1)), ('Vec4', 'unit_z_point', pt(2)), ('Vec4', 'left_point', pt(0, -1)), ('Vec4', 'right_point', pt(0)),
            ('Vec4', 'up_point', pt(1)), ('Vec4', 'down_point', pt(1, -1)), ('Vec4', 'forward_point_lh', pt(2)), ('Vec4', 'forward_point_rh', pt(2, -1)), ('Vec4', 'back_point_lh', pt(2, -1)), ('Vec4', 'back_point_rh', pt(2))]
    return out

COLORS = {'black': (0, 0, 0), 'white': (1, 1, 1), 'red': (1, 0, 0), 'green': (0, 1, 0), 'blue': (0, 0, 1), 'cyan': (0, 1, 1), 'magenta': (1, 0, 1), 'yellow': (1, 1, 0)}
FULLS = {'f32': 1, 'f64': 1, 'u8': 2**8 - 1, 'u16': 2**16 - 1, 'u32': 2**32 - 1, 'u64': 2**64 - 1, 'i8': 2**7 - 1, 'i16': 2**15 - 1, 'i32': 2**31 - 1, 'i64': 2**63 - 1}
OOR = [(4, 5, 6, 7), (7, 0, 9, 2), (18446744073709551615, 0, 1, 2), (3, 18446744073709551614, 6, 1), (255, 256, 257, 258)]


def build_roots(tier):
    roots = []; meta = {}

    def add(name, code, **m):
        roots.append(Root(name, code)); meta[name] = m

    for dst, src, mp in CONV:
        for ty in ('f32', 'u8'):
            if F in mp and ty == 'f32': pass
            nm = 'r_from_%s_%s_%s' % (dst, src, ty)
            add(nm, 'pub fn %s(a: %s<%s>) -> %s<%s> { %s::from(a) }' % (nm, src, ty, dst, ty, dst), kind='conv', mp=mp, ty=ty)
    for dst, src in SMALLER:
        nm = 'r_fromss_%s' % dst
        add(nm, 'pub fn %s(a: %s<f32>, s: f32) -> %s<f32> { %s::from((a, s)) }' % (nm, src, dst, dst), kind='smaller', src=src)
    for src, f, dst, mp in SWIZZLE:
        nm = 'r_sw_%s_%s' % (src, f)
        add(nm, 'pub fn %s(a: %s<f32>) -> %s<f32> { a.%s() }' % (nm, src, dst, f), kind='conv', mp=mp, ty='f32')
    for src, f, dst, mp in WITH:
        nm = 'r_%s_%s' % (f, src)
        add(nm, 'pub fn %s(a: %s<f32>, s: f32) -> %s<f32> { a.%s(s) }' % (nm, src, dst, f), kind='conv', mp=mp, ty='f32')
    add('r_new_point', 'pub fn r_new_point(x: f32, y: f32, z: f32) -> Vec4<f32> { Vec4::new_point(x, y, z) }', kind='exact', e=['a0', 'a1', 'a2', 1])
    add('r_new_direction', 'pub fn r_new_direction(x: f32, y: f32, z: f32) -> Vec4<f32> { Vec4::new_direction(x, y, z) }', kind='exact', e=['a0', 'a1', 'a2', 0])
    add('r_from_point', 'pub fn r_from_point(v: Vec3<f32>) -> Vec4<f32> { Vec4::from_point(v) }', kind='exact', e=['a0.x', 'a0.y', 'a0.z', 1])
    add('r_from_direction', 'pub fn r_from_direction(v: Vec3<f32>) -> Vec4<f32> { Vec4::from_direction(v) }', kind='exact', e=['a0.x', 'a0.y', 'a0.z', 0])
    add('r_new_point_2d', 'pub fn r_new_point_2d(x: f32, y: f32) -> Vec3<f32> { Vec3::new_point_2d(x, y) }', kind='exact', e=['a0', 'a1', 1])
    add('r_new_direction_2d', 'pub fn r_new_direction_2d(x: f32, y: f32) -> Vec3<f32> { Vec3::new_direction_2d(x, y) }', kind='exact', e=['a0', 'a1', 0])
    add('r_from_point_2d', 'pub fn r_from_point_2d(v: Vec2<f32>) -> Vec3<f32> { Vec3::from_point_2d(v) }', kind='exact', e=['a0.x', 'a0.y', 1])
    add('r_from_direction_2d', 'pub fn r_from_direction_2d(v: Vec2<f32>) -> Vec3<f32> { Vec3::from_direction_2d(v) }', kind='exact', e=['a0.x', 'a0.y', 0])
    for K, f, e in units():
        nm = 'r_unit_%s_%s' % (K, f)
        add(nm, 'pub fn %s() -> %s<f32> { %s::%s() }' % (nm, K, K, f), kind='consts', e=e)
    # shuffles
    for K, flds in (('Vec4', 'xyzw'), ('Rgba', 'rgba')):
        masks = list(itertools.product(range(4), repeat=4)) if (K == 'Vec4' or tier == 'thorough') else [m for i, m in enumerate(itertools.product(range(4), repeat=4)) if i % 5 == 0]
        for (a, b, c, d) in masks:
            nm = 'r_shlh_%s_%d%d%d%d' % (K, a, b, c, d)
            add(nm, 'pub fn %s(lo: %s<f32>, hi: %s<f32>) -> %s<f32> { %s::shuffle_lo_hi(lo, hi, (%d, %d, %d, %d)) }' % (nm, K, K, K, K, a, b, c, d), kind='shuf2', idx=(a, b, c, d), flds=flds)
            nm = 'r_sh_%s_%d%d%d%d' % (K, a, b, c, d)
            add(nm, 'pub fn %s(v: %s<f32>) -> %s<f32> { v.shuffled((%d, %d, %d, %d)) }' % (nm, K, K, a, b, c, d), kind='shuf1', idx=(a, b, c, d), flds=flds)
        for q, (a, b, c, d) in enumerate(OOR):
            nm = 'r_shoor_%s_%d' % (K, q)
            add(nm, 'pub fn %s(lo: %s<f32>, hi: %s<f32>) -> %s<f32> { %s::shuffle_lo_hi(lo, hi, (%dusize, %dusize, %dusize, %dusize)) }' % (nm, K, K, K, K, a, b, c, d), kind='shuf2', idx=(a % 4, b % 4, c % 4, d % 4), flds=flds)
            nm = 'r_sharr_%s_%d' % (K, q)
            add(nm, 'pub fn %s(v: %s<f32>) -> %s<f32> { v.shuffled([%dusize, %dusize, %dusize, %dusize]) }' % (nm, K, K, a, b, c, d), kind='shuf1', idx=(a % 4, b % 4, c % 4, d % 4), flds=flds)
        for mval in range(9):
            nm = 'r_shus_%s_%d' % (K, mval)
            add(nm, 'pub fn %s(v: %s<f32>) -> %s<f32> { v.shuffled(%dusize) }' % (nm, K, K, mval), kind='shuf1', idx=(mval % 4,) * 4, flds=flds)
        for f, e in (('interleave_0011', ['a.0', 'b.0', 'a.1', 'b.1']), ('interleave_2233', ['a.2', 'b.2', 'a.3', 'b.3']), ('shuffle_lo_hi_0101', ['a.0', 'a.1', 'b.0', 'b.1']), ('shuffle_hi_lo_2323', ['b.2', 'b.3', 'a.2', 'a.3'])):
            nm = 'r_%s_%s' % (f, K)
            add(nm, 'pub fn %s(a: %s<f32>, b: %s<f32>) -> %s<f32> { %s::%s(a, b) }' % (nm, K, K, K, K, f), kind='lanes2', e=e, flds=flds)
        for f, e in (('shuffled_0101', [0, 1, 0, 1]), ('shuffled_2323', [2, 3, 2, 3]), ('shuffled_0022', [0, 0, 2, 2]), ('shuffled_1133', [1, 1, 3, 3])):
            nm = 'r_%s_%s' % (f, K)
            add(nm, 'pub fn %s(v: %s<f32>) -> %s<f32> { v.%s() }' % (nm, K, K, f), kind='shuf1', idx=tuple(e), flds=flds)
    for (a, b, c, d) in list(itertools.product(range(4), repeat=4))[::7] + OOR:
        nm = 'r_mask_%d_%d_%d_%d' % (a % 1000, b % 1000, c % 1000, d % 1000)
        add(nm, 'pub fn %s() -> (usize, usize, usize, usize) { vek::vec::ShuffleMask4::new(%dusize, %dusize, %dusize, %dusize).to_indices() }' % (nm, a, b, c, d), kind='consts', e=[C(a % 4), C(b % 4), C(c % 4), C(d % 4)])
    # colours
    for ty in ('f32', 'u8', 'i16'):
        full = FULLS[ty]
        for cname, (r, g, b) in COLORS.items():
            add('r_rgba_%s_%s' % (cname, ty), 'pub fn r_rgba_%s_%s() -> Rgba<%s> { Rgba::%s() }' % (cname, ty, ty, cname), kind='consts', e=[C(r * full), C(g * full), C(b * full), C(full)])
            add('r_rgb_%s_%s' % (cname, ty), 'pub fn r_rgb_%s_%s() -> Rgb<%s> { Rgb::%s() }' % (cname, ty, ty, cname), kind='consts', e=[C(r * full), C(g * full), C(b * full)])
        for g in ('gray', 'grey'):
            add('r_rgba_%s_%s' % (g, ty), 'pub fn r_rgba_%s_%s(v: %s) -> Rgba<%s> { Rgba::%s(v) }' % (g, ty, ty, ty, g), kind='exact', e=['a0', 'a0', 'a0', full])
            add('r_rgb_%s_%s' % (g, ty), 'pub fn r_rgb_%s_%s(v: %s) -> Rgb<%s> { Rgb::%s(v) }' % (g, ty, ty, ty, g), kind='exact', e=['a0', 'a0', 'a0'])
        add('r_new_opaque_%s' % ty, 'pub fn r_new_opaque_%s(r: %s, g: %s, b: %s) -> Rgba<%s> { Rgba::new_opaque(r, g, b) }' % (ty, ty, ty, ty, ty), kind='exact', e=['a0', 'a1', 'a2', full])
        add('r_new_transparent_%s' % ty, 'pub fn r_new_transparent_%s(r: %s, g: %s, b: %s) -> Rgba<%s> { Rgba::new_transparent(r, g, b) }' % (ty, ty, ty, ty, ty), kind='exact', e=['a0', 'a1', 'a2', 0])
        add('r_from_opaque_%s' % ty, 'pub fn r_from_opaque_%s(c: Rgb<%s>) -> Rgba<%s> { Rgba::from_opaque(c) }' % (ty, ty, ty), kind='exact', e=['a0.r', 'a0.g', 'a0.b', full])
        add('r_from_transparent_%s' % ty, 'pub fn r_from_transparent_%s(c: Rgb<%s>) -> Rgba<%s> { Rgba::from_transparent(c) }' % (ty, ty, ty), kind='exact', e=['a0.r', 'a0.g', 'a0.b', 0])
        add('r_from_translucent_%s' % ty, 'pub fn r_from_translucent_%s(c: Rgb<%s>, o: %s) -> Rgba<%s> { Rgba::from_translucent(c, o) }' % (ty, ty, ty, ty), kind='exact', e=['a0.r', 'a0.g', 'a0.b', 'a1'])
        add('r_inv_rgba_%s' % ty, 'pub fn r_inv_rgba_%s(c: Rgba<%s>) -> Rgba<%s> { c.inverted_rgb() }' % (ty, ty, ty), kind='inv', full=full, n=4)
        add('r_inv_rgb_%s' % ty, 'pub fn r_inv_rgb_%s(c: Rgb<%s>) -> Rgb<%s> { c.inverted_rgb() }' % (ty, ty, ty), kind='inv', full=full, n=3)
        add('r_inv2_rgba_%s' % ty, 'pub fn r_inv2_rgba_%s(c: Rgba<%s>) -> Rgba<%s> { c.inverted_rgb().inverted_rgb() }' % (ty, ty, ty), kind='exact', e=['a0.r', 'a0.g', 'a0.b', 'a0.a'])
        add('r_inv2_rgb_%s' % ty, 'pub fn r_inv2_rgb_%s(c: Rgb<%s>) -> Rgb<%s> { c.inverted_rgb().inverted_rgb() }' % (ty, ty, ty), kind='exact', e=['a0.r', 'a0.g', 'a0.b'])
    add('r_avg_rgba', 'pub fn r_avg_rgba(c: Rgba<f32>) -> f32 { c.average_rgb() }', kind='avg')
    add('r_avg_rgb', 'pub fn r_avg_rgb(c: Rgb<f32>) -> f32 { c.average_rgb() }', kind='avg')
    # integer component types: one truncating division of the sum (an identity over the reals such as r/3+g/3+b/3 is not the same function)
    for ty in ('u8', 'u16', 'u32', 'i32', 'u64'):
        add('r_avg_rgba_%s' % ty, 'pub fn r_avg_rgba_%s(c: Rgba<%s>) -> %s { c.average_rgb() }' % (ty, ty, ty), kind='avgi')
        add('r_avg_rgb_%s' % ty, 'pub fn r_avg_rgb_%s(c: Rgb<%s>) -> %s { c.average_rgb() }' % (ty, ty, ty), kind='avgi')
    for ty, full in FULLS.items():
        add('r_full_%s' % ty, 'pub fn r_full_%s() -> %s { <%s as ColorComponent>::full() }' % (ty, ty, ty), kind='consts', e=[C(full)])
        if ty not in ('f32', 'f64'):
            add('r_full_w%s' % ty, 'pub fn r_full_w%s() -> core::num::Wrapping<%s> { <core::num::Wrapping<%s> as ColorComponent>::full() }' % (ty, ty, ty), kind='consts', e=[C(full)])
    # matrix size conversions themselves (the grow direction is what the commutation law uses; shrinking keeps the upper-left block)
    for L in ('Rows', 'Cols'):
        for a in (2, 3, 4):
            for b in (2, 3, 4):
                if a == b: continue
                nm = 'r_resize_%s_%d_%d' % (L, a, b)
                add(nm, 'pub fn %s(m: %s%d<f32>) -> %s%d<f32> { %s%d::from(m) }' % (nm, L, a, L, b, L, b), kind='resize', l=L, a=a, b=b)
    # embedding commutes with multiplication
    for L in ('Rows', 'Cols'):
        for (small, big) in ((2, 3), (2, 4), (3, 4)):
            nm = 'r_embed_%s_%d_%d' % (L, small, big)
            add(nm, 'pub fn %s(m: %s%d<f32>, v: Vec%d<f32>) -> Vec%d<f32> { %s%d::from(m) * Vec%d::from(v) }' % (nm, L, small, small, big, L, big, big), kind='embed', l=L, small=small, big=big)
    return roots, meta


def run(ctx):
    ctx.level = 'proof'
    ctx.explanation = ('Conversions between vector kinds and sizes, swizzles, with_* setters, homogeneous constructors, unit/direction constants, all 256 4-lane shuffle masks '
                       '(plus out-of-range index tuples, usize and array masks), interleave/move helpers, colour constructors and helpers and ColorComponent::full for every implementing type '
                       'are interpreted over MIR with distinct free symbols; each output slot must be exactly the named input element or constant.')
    ctx.assumptions = ['element moves of a generic T are decided by parametricity']
    roots, meta = build_roots(ctx.tier)
    sc = ctx.scan(roots, ALL_FEATURES)
    if sc.compile_error: return
    done = 0
    for r in roots:
        rs = sc.get(r.name); m = meta[r.name]
        if rs is None or not rs.ok: continue
        done += 1
        k = m['kind']; key = 'c19/' + r.name[2:]; w = r.code
        try:
            p = rs.only()
        except (AssertionError, KeyError, ValueError, TypeError, IndexError, ZeroDivisionError, AttributeError) as e:
            ctx.ob(key + '/paths', False, 'branch-free', w, 'one path', str(e)); continue
        if k == 'conv':
            full = C(FULLS.get(m['ty'], 1))
            E = [C(0) if f == Z else full if f == F else sym('a1') if f == 'S' else sym('a0.' + f) for f in m['mp']]
            vec_eq(ctx, key, p.ret, E, 'perm: conversion / swizzle keeps exactly the named elements (shrink = prefix, grow = zeros, Rgb->Rgba = full alpha)', w)
        elif k == 'smaller':
            E = [sym('a0.' + f) for f in VEC_FIELDS[m['src']][0]] + [sym('a1')]
            vec_eq(ctx, key, p.ret, E, 'perm: (smaller vector, scalar) appends the supplied scalar', w)
        elif k == 'exact':
            E = [sym(x) if isinstance(x, str) else C(x) for x in m['e']]
            vec_eq(ctx, key, p.ret, E, 'perm: constructor places the named elements / constants', w)
        elif k == 'consts':
            vec_eq(ctx, key, p.ret, m['e'], 'const: constant table', w)
        elif k == 'shuf2':
            a, b, c, d = m['idx']; f = m['flds']
            E = [sym('a0.' + f[a]), sym('a0.' + f[b]), sym('a1.' + f[c]), sym('a1.' + f[d])]
            vec_eq(ctx, key, p.ret, E, 'perm: shuffle_lo_hi picks (lo[a], lo[b], hi[c], hi[d]) with indices modulo 4', w)
        elif k == 'shuf1':
            f = m['flds']
            vec_eq(ctx, key, p.ret, [sym('a0.' + f[i]) for i in m['idx']], 'perm: single-operand shuffle picks lanes by index modulo 4', w)
        elif k == 'lanes2':
            f = m['flds']
            E = [sym('a%d.%s' % (0 if x[0] == 'a' else 1, f[int(x[2])])) for x in m['e']]
            vec_eq(ctx, key, p.ret, E, 'perm: interleave / move helper matches its lane diagram', w)
        elif k == 'inv':
            f = 'rgba'[:m['n']]; full = C(m['full'])
            E = [full - sym('a0.' + c) for c in 'rgb'] + ([sym('a0.a')] if m['n'] == 4 else [])
            vec_eq(ctx, key, p.ret, E, 'alg=: inverted_rgb = full - component, alpha untouched', w)
            if m['n'] == 4:
                # provenance: alpha is the input leaf itself (moved/copied), not a recomputed value that merely equals it in exact arithmetic
                raw = p.d['ret']['a'][3] if isinstance(p.d.get('ret'), dict) and 'a' in p.d['ret'] else None
                term = rs.sem.terms[raw['t']] if isinstance(raw, dict) and 't' in raw else None
                ctx.ob(key + '/alpha-untouched', term is not None and term[0] == 'in' and term[1] == 'a0.a', 'perm: alpha is passed through unmodified (an unmodified copy of the input element, not a value recomputed from it)', w, 'input leaf a0.a', term)
        elif k == 'avg':
            ctx.same(key, p.ret, (sym('a0.r') + sym('a0.g') + sym('a0.b')) / C(3), 'alg=: average_rgb = (r+g+b)/3', w)
        elif k == 'avgi':
            ctx.same(key, p.ret, fn('idiv', sym('a0.r') + sym('a0.g') + sym('a0.b'), C(3)), 'alg=: integer average_rgb = (r+g+b) div 3 (one truncating division of the sum)', w)
            # on the raw term: the dividend is r + g + b and nothing else (a sum that takes alpha in and out again is the same polynomial and
            # overflows the component type for every opaque colour)
            from .c02 import fold_leaves
            tid = p.d['ret'].get('t') if isinstance(p.d.get('ret'), dict) else None
            names = fold_leaves(rs.sem, tid, 'Add::add', True)
            ctx.ob(key + '/sum-of-rgb-only', names == ['a0.r', 'a0.g', 'a0.b'], 'shape: the dividend of the integer average is the sum r + g + b of the three colour components only (intermediate results stay within 3 * max)', w, ['a0.r', 'a0.g', 'a0.b'], names)
        elif k == 'resize':
            a, b = m['a'], m['b']
            Mx = msyms('a0', m['l'], a)
            E = [[Mx[i][j] if i < a and j < a else C(1 if i == j else 0) for j in range(b)] for i in range(b)]
            grid_eq(ctx, key, mgrid(p.ret, m['l'], b), E, 'perm: matrix size conversion keeps element (i,j) of the common block and completes with the identity', w)
        elif k == 'embed':
            s, b = m['small'], m['big']
            Mx = msyms('a0', m['l'], s); v = vsyms('a1', vecn(s))
            E = matvec(Mx, v) + [C(0)] * (b - s)
            vec_eq(ctx, key, p.ret, E, 'alg=: embedding a smaller matrix and vector commutes with multiplication', w)
    ctx.floor('roots analysed', done, len(roots))
    ctx.floor('API uses generated (counted at implementation time)', len(roots), 962)
    ctx.floor('shuffle masks', sum(1 for r in roots if meta[r.name]['kind'] in ('shuf1', 'shuf2')), 600)
