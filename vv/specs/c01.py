"""C01 — matrix products are the linear-algebra product in both storage layouts."""
from ..run import Root, leaves
from ..alg import C, sym, fn
from ..shapes import *

ID = 'C01'


def mty(l, n): return '%s%d<f32>' % (l, n)


def build_roots():
    roots = []; meta = {}

    def add(name, code, **m):
        roots.append(Root(name, code)); meta[name] = m

    for n in (2, 3, 4):
        V = 'Vec%d<f32>' % n
        for L in ('Rows', 'Cols'):
            M = mty(L, n); tag = '%s%d' % (L, n)
            for L2 in ('Rows', 'Cols'):
                add('r_mm_%s_%s' % (tag, L2), 'pub fn r_mm_%s_%s(a: %s, b: %s) -> %s { a * b }' % (tag, L2, M, mty(L2, n), mty(L2, n)), kind='mm', n=n, la=L, lb=L2, lo=L2)
            add('r_mv_%s' % tag, 'pub fn r_mv_%s(a: %s, v: %s) -> %s { a * v }' % (tag, M, V, V), kind='mv', n=n, la=L)
            add('r_vm_%s' % tag, 'pub fn r_vm_%s(v: %s, a: %s) -> %s { v * a }' % (tag, V, M, V), kind='vm', n=n, la=L)
            add('r_ms_%s' % tag, 'pub fn r_ms_%s(a: %s, s: f32) -> %s { a * s }' % (tag, M, M), kind='ms', op='mul', n=n, la=L)
            for op, sy in (('add', '+'), ('sub', '-'), ('div', '/'), ('rem', '%')):
                add('r_ew_%s_%s' % (op, tag), 'pub fn r_ew_%s_%s(a: %s, b: %s) -> %s { a %s b }' % (op, tag, M, M, M, sy), kind='ew', op=op, n=n, la=L)
                add('r_es_%s_%s' % (op, tag), 'pub fn r_es_%s_%s(a: %s, s: f32) -> %s { a %s s }' % (op, tag, M, M, sy), kind='ms', op=op, n=n, la=L)
                add('r_ewa_%s_%s' % (op, tag), 'pub fn r_ewa_%s_%s(a: %s, b: %s) -> %s { let mut m = a; m %s= b; m }' % (op, tag, M, M, M, sy), kind='ew', op=op, n=n, la=L)
                add('r_esa_%s_%s' % (op, tag), 'pub fn r_esa_%s_%s(a: %s, s: f32) -> %s { let mut m = a; m %s= s; m }' % (op, tag, M, M, sy), kind='ms', op=op, n=n, la=L)
            add('r_mma_%s' % tag, 'pub fn r_mma_%s(a: %s, b: %s) -> %s { let mut m = a; m *= b; m }' % (tag, M, M, M), kind='mm', n=n, la=L, lb=L, lo=L)
            add('r_msa_%s' % tag, 'pub fn r_msa_%s(a: %s, s: f32) -> %s { let mut m = a; m *= s; m }' % (tag, M, M), kind='ms', op='mul', n=n, la=L)
            add('r_neg_%s' % tag, 'pub fn r_neg_%s(a: %s) -> %s { -a }' % (tag, M, M), kind='neg', n=n, la=L)
            add('r_mw_%s' % tag, 'pub fn r_mw_%s(a: %s, b: %s) -> %s { a.mul_memberwise(b) }' % (tag, M, M, M), kind='ew', op='mul', n=n, la=L)
            add('r_id_%s' % tag, 'pub fn r_id_%s() -> %s { %s%d::identity() }' % (tag, M, L, n), kind='const', which='identity', n=n, la=L)
            add('r_zero_%s' % tag, 'pub fn r_zero_%s() -> %s { %s%d::zero() }' % (tag, M, L, n), kind='const', which='zero', n=n, la=L)
            add('r_one_%s' % tag, 'pub fn r_one_%s() -> %s { num_traits::One::one() }' % (tag, M), kind='const', which='identity', n=n, la=L)
            add('r_nzero_%s' % tag, 'pub fn r_nzero_%s() -> %s { num_traits::Zero::zero() }' % (tag, M), kind='const', which='zero', n=n, la=L)
            add('r_def_%s' % tag, 'pub fn r_def_%s() -> %s { Default::default() }' % (tag, M), kind='const', which='identity', n=n, la=L)
            add('r_mid_%s' % tag, 'pub fn r_mid_%s(a: %s) -> %s { a * %s%d::<f32>::identity() }' % (tag, M, M, L, n), kind='neutral', n=n, la=L)
            add('r_idm_%s' % tag, 'pub fn r_idm_%s(a: %s) -> %s { %s%d::<f32>::identity() * a }' % (tag, M, M, L, n), kind='neutral', n=n, la=L)
    for f in ('mat2_rows_mul', 'mat2_rows_adj_mul', 'mat2_rows_mul_adj', 'mat2_cols_mul', 'mat2_cols_adj_mul', 'mat2_cols_mul_adj'):
        add('r_%s' % f, 'pub fn r_%s(a: Vec4<f32>, b: Vec4<f32>) -> Vec4<f32> { a.%s(b) }' % (f, f), kind='mat2', f=f)
    return roots, meta


def scalar_op(op, x, y, elem='f32'):
    if elem == 'i32' and op in ('div', 'rem'): return fn('idiv' if op == 'div' else 'irem', x, y)
    if op == 'add': return x + y
    if op == 'sub': return x - y
    if op == 'mul': return x * y
    if op == 'div': return x / y
    if op == 'rem': return fn('frem', x, y)
    raise ValueError(op)


def run(ctx):
    ctx.level = 'proof'
    ctx.explanation = ('Every matrix operator of vek (2x2,3x3,4x4; row- and column-major; same and mixed layout; scalar, element-wise, '
                       'compound-assignment forms; identity/zero; Vec4-as-2x2 helpers) is abstractly interpreted over its MIR with free symbols for all '
                       'entries; each output element (i,j) must equal the defining sum of products as a canonical polynomial (exact arithmetic, all inputs).')
    ctx.assumptions = ['f32 operations are read as exact field operations (rounding, NaN, infinities outside the claim)', 'mul_add(a,b,c) = a*b+c']
    roots, meta = build_roots()
    sc = ctx.scan(roots, QUICK_FEATURES if ctx.tier == 'quick' else ALL_FEATURES)
    if sc.compile_error: return
    n_roots = 0
    for r in roots:
        res = sc.get(r.name); m = meta[r.name]
        if res is None or not res.ok: continue
        n_roots += 1
        try:
            p = res.only()
        except (AssertionError, KeyError, ValueError, TypeError, IndexError, ZeroDivisionError, AttributeError) as e:
            ctx.ob(r.name + '/paths', False, 'branch-free', r.name, 'one path', str(e)); continue
        k = m['kind']
        if k == 'mat2':
            a = vsyms('a0', 'Vec4'); b = vsyms('a1', 'Vec4')
            f = m['f']
            # rows flavour: lanes (m00 m01 m10 m11); cols flavour: lanes (m00 m10 m01 m11)
            def tomat(v, flav): return [[v[0], v[1]], [v[2], v[3]]] if flav == 'rows' else [[v[0], v[2]], [v[1], v[3]]]
            flav = 'rows' if '_rows_' in f else 'cols'
            A, Bm = tomat(a, flav), tomat(b, flav)
            if f.endswith('adj_mul'): E = matmul(adjugate(A), Bm)
            elif f.endswith('mul_adj'): E = matmul(A, adjugate(Bm))
            else: E = matmul(A, Bm)
            out = leaves(p.ret)
            G = tomat(out, flav)
            grid_eq(ctx, 'c01/%s' % f, G, E, 'alg=: Vec4-as-2x2 helper equals the 2x2 matrix expression', 'vek::Vec4::%s' % f)
            continue
        n = m['n']; la = m['la']
        A = msyms('a0', la, n) if k not in ('const', 'vm') else None
        key = 'c01/%s' % r.name[2:]
        if k == 'mm':
            Bm = msyms('a1', m['lb'], n)
            grid_eq(ctx, key, mgrid(p.ret, m['lo'], n), matmul(A, Bm), 'alg=: (A*B)(i,j) = sum_k A(i,k)*B(k,j)', r.code)
        elif k == 'mv':
            v = vsyms('a1', vecn(n))
            vec_eq(ctx, key, p.ret, matvec(A, v), 'alg=: (A*v)(i) = sum_k A(i,k)*v(k)', r.code)
        elif k == 'vm':
            v = vsyms('a0', vecn(n)); A = msyms('a1', la, n)
            vec_eq(ctx, key, p.ret, vecmat(v, A), 'alg=: (v*A)(j) = sum_k v(k)*A(k,j)', r.code)
        elif k == 'ms':
            s = sym('a1')
            grid_eq(ctx, key, mgrid(p.ret, la, n), [[scalar_op(m['op'], A[i][j], s, ctx.elem) for j in range(n)] for i in range(n)], 'alg=: scalar operand acts per element', r.code)
        elif k == 'ew':
            Bm = msyms('a1', la, n)
            grid_eq(ctx, key, mgrid(p.ret, la, n), [[scalar_op(m['op'], A[i][j], Bm[i][j], ctx.elem) for j in range(n)] for i in range(n)], 'alg=: element-wise operator acts per element', r.code)
        elif k == 'neg':
            grid_eq(ctx, key, mgrid(p.ret, la, n), [[-A[i][j] for j in range(n)] for i in range(n)], 'alg=: negation per element', r.code)
        elif k == 'const':
            E = ident(n) if m['which'] == 'identity' else [[C(0)] * n for _ in range(n)]
            grid_eq(ctx, key, mgrid(p.ret, la, n), E, 'const: identity / zero matrix', r.code)
        elif k == 'neutral':
            grid_eq(ctx, key, mgrid(p.ret, la, n), A, 'alg=: identity is neutral', r.code)
    ctx.floor('roots analysed', n_roots, 174)
    ctx.floor('obligations', ctx.obligations, 1700)
