"""C09 — view and change-of-basis matrices are rigid and place eye, target and axes right."""
from ..run import Root, leaves
from ..alg import C, sym, fn, Rat, atom_in
from .. import alg
from ..shapes import *
from .c06 import quat_rotation

ID = 'C09'


def build_roots():
    roots = []; meta = {}

    def add(name, code, max_paths=8, **m):
        roots.append(Root(name, code, max_paths=max_paths)); meta[name] = m

    for L in ('Rows', 'Cols'):
        M = '%s4<f32>' % L
        for f in ('look_at', 'look_at_lh', 'look_at_rh', 'model_look_at', 'model_look_at_lh', 'model_look_at_rh'):
            add('r_%s_%s' % (f, L), 'pub fn r_%s_%s(eye: Vec3<f32>, target: Vec3<f32>, up: Vec3<f32>) -> %s { %s4::%s(eye, target, up) }' % (f, L, M, L, f), kind='view', f=f, l=L)
        add('r_l2b_%s' % L, 'pub fn r_l2b_%s(o: Vec3<f32>, i: Vec3<f32>, j: Vec3<f32>, k: Vec3<f32>) -> %s { %s4::local_to_basis(o, i, j, k) }' % (L, M, L), kind='l2b', l=L)
        add('r_b2l_%s' % L, 'pub fn r_b2l_%s(o: Vec3<f32>, i: Vec3<f32>, j: Vec3<f32>, k: Vec3<f32>) -> %s { %s4::basis_to_local(o, i, j, k) }' % (L, M, L), kind='b2l', l=L)
    return roots, meta


def v3(arg): return [sym('%s.%s' % (arg, c)) for c in 'xyz']


def norm(v): return alg.sqrt(dot(v, v))


def unit(v):
    n = norm(v)
    return [x / n for x in v]


def run(ctx):
    ctx.level = 'proof'
    ctx.explanation = ('look_at_{lh,rh}, model_look_at_{lh,rh} (and the deprecated aliases) in both layouts are interpreted with free eye/target/up; the checker computes, in Q(atoms) with sqrt(P)^2 = P, that the view matrix sends the eye to the origin, '
                       'the target to (0,0,+-|target-eye|), the up direction to (0, |up x f|, .) (x = 0, y a positive square root), has an orthonormal rotation block of determinant +1 and an affine last row; that model_look_at * look_at = I = look_at * model_look_at '
                       'and model_look_at sends the origin to the eye. local_to_basis maps origin and unit axes to origin, origin+i, +j, +k for arbitrary vectors; basis_to_local * local_to_basis = I for every orthonormal basis, '
                       'parametrised rationally as R(q)/|q|^2 and its mirror image (all of O(3)).')
    ctx.assumptions = ['exact arithmetic; eye != target and up not parallel to the view direction (the identities are identities of rational functions with square roots)', 'orthonormal bases are parametrised by quaternions (rotations) and rotations composed with one reflection']
    roots, meta = build_roots()
    sc = ctx.scan(roots, QUICK_FEATURES)
    if sc.compile_error: return
    done = 0
    G = {}
    for r in roots:
        rs = sc.get(r.name); m = meta[r.name]
        if rs is None or not rs.ok: continue
        done += 1
        try: G[r.name] = mgrid(rs.only().ret, m['l'], 4)
        except (AssertionError, KeyError, ValueError, TypeError, IndexError, ZeroDivisionError, AttributeError) as e:
            ctx.ob('c09/%s/paths' % r.name[2:], False, 'branch-free', r.code, 'one path', str(e))
    I4 = ident(4); Z = C(0); O = C(1)
    for r in roots:
        if r.name not in G: continue
        m = meta[r.name]; key = 'c09/' + r.name[2:]; w = r.code; g = G[r.name]; L = m['l']
        if m['kind'] == 'view':
            f = m['f']; model = f.startswith('model'); rh = f.endswith('_rh')
            eye, target, up = v3('a0'), v3('a1'), v3('a2')
            d = [t - e for t, e in zip(target, eye)]
            fz = C(-1) if rh else C(1)           # forward axis of the handedness
            grid_eq(ctx, key + '/last-row', [g[3]], [[Z, Z, Z, O]], 'const: affine matrix (last row 0 0 0 1)', w)
            R = [row[:3] for row in g[:3]]
            grid_eq(ctx, key + '/orthonormal', matmul(R, transpose(R)), ident(3), 'alg=: the 3x3 block is orthogonal (R R^T = I, computed)', w)
            ctx.same(key + '/det', det(R), O, 'alg=: determinant +1 (rigid, orientation preserving)', w)
            if not model:
                vec_eq(ctx, key + '/eye-to-origin', matvec(g, eye + [O]), [Z, Z, Z, O], 'alg=: the view matrix sends the eye to the origin', w)
                vec_eq(ctx, key + '/target-on-forward-axis', matvec(g, target + [O]), [Z, Z, fz * norm(d), O], 'alg=: the target lands on the forward axis (+z left-handed, -z right-handed) at the eye-target distance', w)
                fu = unit(d)
                upimg = matvec(g, up + [Z])
                cr = cross(up, fu)
                ctx.same(key + '/up-x', upimg[0], Z, 'alg=: the up direction has no sideways component in view space', w)
                ctx.same(key + '/up-y', upimg[1], norm(cr), 'alg=: the up direction points into the upper half-plane: its vertical view component is |up x f| > 0', w)
                ctx.same(key + '/up-w', upimg[3], Z, 'alg=: directions stay directions', w)
            else:
                vec_eq(ctx, key + '/origin-to-eye', matvec(g, [Z, Z, Z, O]), eye + [O], 'alg=: the model matrix sends the origin to the eye', w)
                vec_eq(ctx, key + '/forward-axis-to-target', matvec(g, [Z, Z, fz * norm(d), O]), target + [O], 'alg=: the model matrix sends the point at the eye-target distance on the forward axis to the target', w)
                vn = 'r_' + f.replace('model_', '') + '_' + L
                if vn in G:
                    grid_eq(ctx, key + '/inverse-of-view/left', matmul(g, G[vn]), I4, 'alg=: model_look_at * look_at = I', w)
                    grid_eq(ctx, key + '/inverse-of-view/right', matmul(G[vn], g), I4, 'alg=: look_at * model_look_at = I', w)
            if f in ('look_at', 'model_look_at'):
                tn = 'r_%s_lh_%s' % (f, L)
                if tn in G: grid_eq(ctx, key + '/alias-of-lh', g, G[tn], 'alg≡: the deprecated name is the left-handed form', w)
        elif m['kind'] == 'l2b':
            o, i, j, k = v3('a0'), v3('a1'), v3('a2'), v3('a3')
            vec_eq(ctx, key + '/origin', matvec(g, [Z, Z, Z, O]), o + [O], 'alg=: local origin -> origin', w)
            for nm, e, b in (('i', [O, Z, Z], i), ('j', [Z, O, Z], j), ('k', [Z, Z, O], k)):
                vec_eq(ctx, key + '/axis-' + nm, matvec(g, e + [O]), [a + c for a, c in zip(o, b)] + [O], 'alg=: unit axis point -> origin + basis vector', w)
            grid_eq(ctx, key + '/last-row', [g[3]], [[Z, Z, Z, O]], 'const: affine matrix', w)
        elif m['kind'] == 'b2l':
            l2b = G.get('r_l2b_' + L)
            if l2b is None: continue
            q = [sym('q.' + c) for c in 'wxyz']
            Rm = quat_rotation(*q)
            for tag, cols in (('rotation', Rm), ('reflection', [[Rm[a][0], Rm[a][1], -Rm[a][2]] for a in range(3)])):
                mp = {}
                for ci, nm in enumerate(('a1', 'a2', 'a3')):
                    for ri, c in enumerate('xyz'):
                        mp[atom_in('%s.%s' % (nm, c))] = cols[ri][ci]
                A = [[e.subs(mp) for e in row] for row in g]; Bm = [[e.subs(mp) for e in row] for row in l2b]
                grid_eq(ctx, key + '/undoes-local_to_basis/%s/left' % tag, matmul(A, Bm), I4, 'alg=: basis_to_local * local_to_basis = I for every orthonormal basis (%s family)' % tag, w)
                grid_eq(ctx, key + '/undoes-local_to_basis/%s/right' % tag, matmul(Bm, A), I4, 'alg=: local_to_basis * basis_to_local = I for every orthonormal basis (%s family)' % tag, w)
            grid_eq(ctx, key + '/last-row', [g[3]], [[Z, Z, Z, O]], 'const: affine matrix', w)
    ctx.floor('roots analysed', done, len(roots))
    ctx.floor('obligations', ctx.obligations, 400)
