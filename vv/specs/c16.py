"""C16 — disks, spheres, segments, rays: containment, distance and hit queries are exact."""
from ..run import Root, leaves, Enum
from ..alg import C, sym, fn, Rat, named, atom_in
from ..sem import B, lt, le, gt, ge, minmax, as_bool
from ..shapes import *
from ..rules import feasible_paths, nonconst_conds, cond_leaves, truth
from .. import alg
from .c13 import contradictory

ID = 'C16'
SH = {2: ('Disk', 'Vec2', 'disk', 'Aabr', 'aabr', 'Rect', 'rect', ['x', 'y']), 3: ('Sphere', 'Vec3', 'sphere', 'Aabb', 'aabb', 'Rect3', 'rect3', ['x', 'y', 'z'])}


def build_roots():
    roots = []; meta = {}

    def add(name, code, max_paths=64, **m):
        roots.append(Root(name, code, max_paths=max_paths)); meta[name] = m

    for d in (2, 3):
        S, V, s, Ab, ab, R, rc, ax = SH[d]
        ST = '%s<f32, f32>' % S; VT = '%s<f32>' % V
        add('r_contains_' + S, 'pub fn r_contains_%s(a: %s, p: %s) -> bool { a.contains_point(p) }' % (S, ST, VT), kind='contains', d=d)
        add('r_collides_' + S, 'pub fn r_collides_%s(a: %s, b: %s) -> bool { a.collides_with_%s(b) }' % (S, ST, ST, s), kind='collides', d=d)
        add('r_colvec_' + S, 'pub fn r_colvec_%s(a: %s, b: %s) -> %s { a.collision_vector_with_%s(b) }' % (S, ST, ST, VT, s), kind='colvec', d=d)
        add('r_aab_' + S, 'pub fn r_aab_%s(a: %s) -> %s<f32> { a.%s() }' % (S, ST, Ab, ab), kind='aab', d=d)
        add('r_rect_' + S, 'pub fn r_rect_%s(a: %s) -> %s<f32, f32> { a.%s() }' % (S, ST, R, rc), kind='rect', d=d)
        add('r_diameter_' + S, 'pub fn r_diameter_%s(a: %s) -> f32 { a.diameter() }' % (S, ST), kind='diameter', d=d)
        add('r_ctors_' + S, 'pub fn r_ctors_%s(c: %s, r: f32) -> (%s, %s, %s) { (%s::new(c, r), %s::unit(c), %s::point(c)) }' % (S, VT, ST, ST, ST, S, S, S), kind='ctors', d=d)
    add('r_circumference', 'pub fn r_circumference(a: Disk<f32, f32>) -> f32 { a.circumference() }', kind='formula', d=2, f='circumference')
    add('r_area', 'pub fn r_area(a: Disk<f32, f32>) -> f32 { a.area() }', kind='formula', d=2, f='area')
    add('r_surface_area', 'pub fn r_surface_area(a: Sphere<f32, f32>) -> f32 { a.surface_area() }', kind='formula', d=3, f='surface_area')
    add('r_volume', 'pub fn r_volume(a: Sphere<f32, f32>) -> f32 { a.volume() }', kind='formula', d=3, f='volume')
    for d in (2, 3):
        LS = 'LineSegment%d<f32>' % d; VT = 'Vec%d<f32>' % d
        add('r_seg_projected_%d' % d, 'pub fn r_seg_projected_%d(s: %s, p: %s) -> %s { s.projected_point(p) }' % (d, LS, VT, VT), kind='seg_proj', d=d)
        add('r_seg_distance_%d' % d, 'pub fn r_seg_distance_%d(s: %s, p: %s) -> f32 { s.distance_to_point(p) }' % (d, LS, VT), kind='seg_dist', d=d)
        add('r_seg_conv_%d' % d, 'pub fn r_seg_conv_%d(a: %s, b: %s) -> (%s, core::ops::Range<%s>, LineSegment%d<i64>) { (LineSegment%d::from(a..b), LineSegment%d::from(a..b).into_range(), LineSegment%d::from(a..b).as_()) }' % (d, VT, VT, LS, VT, d, d, d, d), kind='seg_conv', d=d)
    add('r_ray_tri', 'pub fn r_ray_tri(r: &Ray<f32>, t: [Vec3<f32>; 3]) -> Option<f32> { r.triangle_intersection(t) }', kind='ray', d=3, max_paths=400)
    add('r_ray_tri_f64', 'pub fn r_ray_tri_f64(r: &Ray<f64>, t: [Vec3<f64>; 3]) -> Option<f64> { r.triangle_intersection(t) }', kind='ray', d=3, max_paths=400, ty='f64')
    add('r_ray_new', 'pub fn r_ray_new(o: Vec3<f32>, d: Vec3<f32>) -> Ray<f32> { Ray::new(o, d) }', kind='ray_new', d=3)
    return roots, meta


def vs(arg, d): return [sym('%s.%s' % (arg, c)) for c in 'xyz'[:d]]


def dist(a, b): return alg.sqrt(sum_((x - y) * (x - y) for x, y in zip(a, b)))


def run(ctx):
    ctx.level = 'proof'
    ctx.explanation = ('Disk/Sphere: contains_point and collides_with_* are the comparisons distance <= radius / centre distance <= r1 + r2 (operator and both sides are part of the abstract value, so < vs <= is decided); bounding box/rect, '
                       'diameter and the pi formulas are exact expressions; the collision vector is (c2-c1)/|c2-c1| * (r1+r2-|c2-c1|) and the checker computes that moving the other shape by it makes the squared centre distance (r1+r2)^2 (tangent). '
                       'Segments: projected_point = start + (end-start) clamp01(t*) where t* is shown to be the stationary point of the squared distance (derivative identity), with the degenerate-length guard; distance_to_point equals the distance to '
                       'the projected point on every path. Ray-triangle: the complete path set; Some(d) exactly on {a not in (-eps,eps), 0 <= u <= 1, v >= 0, u+v <= 1} with u, v, d equal to the Cramer solution of origin + d dir = v0 + u e1 + v e2 '
                       '(3x3 determinants by the checker), every other path None, strictness of each comparison included (edges and vertices stay hits).')
    ctx.assumptions = ['exact arithmetic; NaN excluded', 'the nearest point of a segment is the clamp of the stationary parameter (convexity of the squared distance along the line): mathematics about the formula, cited not recomputed']
    roots, meta = build_roots()
    sc = ctx.scan(roots, QUICK_FEATURES)
    if sc.compile_error: return
    done = 0
    eps = named('eps:f32'); pi = named('pi')
    for r in roots:
        rs = sc.get(r.name); m = meta[r.name]
        if rs is None or not rs.ok: continue
        done += 1
        k = m['kind']; d = m['d']; key = 'c16/' + r.name[2:]; w = r.code
        try:
            if k in ('contains', 'collides', 'colvec', 'aab', 'rect', 'diameter', 'formula'):
                c1 = vs('a0.center', d); r1 = sym('a0.radius')
            if k == 'contains':
                p = vs('a1', d); q = rs.only()
                ctx.ob(key, truth(q.ret) == le(dist(c1, p), r1), 'alg=: contains_point <=> distance(centre, p) <= radius (non-strict)', w, 'dist <= r', str(q.ret))
            elif k == 'collides':
                c2 = vs('a1.center', d); r2 = sym('a1.radius'); q = rs.only()
                ctx.ob(key, truth(q.ret) == le(dist(c1, c2), r1 + r2), 'alg=: collides <=> centre distance <= r1 + r2 (non-strict)', w, 'dist <= r1 + r2', str(q.ret))
            elif k == 'colvec':
                c2 = vs('a1.center', d); r2 = sym('a1.radius'); q = rs.only()
                v = [b - a for a, b in zip(c1, c2)]; nv = alg.sqrt(dot(v, v))
                got = leaves(q.ret)
                vec_eq(ctx, key, got, [x / nv * (r1 + r2 - nv) for x in v], 'alg=: collision vector = unit(c2 - c1) * (r1 + r2 - |c2 - c1|)', w)
                moved = [c2[i] + got[i] - c1[i] for i in range(d)]
                ctx.same(key + '/tangent', dot(moved, moved), (r1 + r2) * (r1 + r2), 'alg=: after moving the other shape by the collision vector the squared centre distance is (r1 + r2)^2: exactly tangent (computed)', w)
                cr = cross_or_det(moved, v, d)
                for i, z in enumerate(cr): ctx.same('%s/same-line/%d' % (key, i), z, C(0), 'alg=: the move is along the line of centres', w)
            elif k == 'aab':
                vec_eq(ctx, key, rs.only().ret, [c - r1 for c in c1] + [c + r1 for c in c1], 'alg=: bounding box = centre -/+ radius on every axis', w)
            elif k == 'rect':
                vec_eq(ctx, key, rs.only().ret, [c - r1 for c in c1] + [C(2) * r1] * d, 'alg=: bounding rectangle: position = centre - radius, extent = diameter on every axis', w)
            elif k == 'diameter':
                ctx.same(key, rs.only().ret, C(2) * r1, 'alg=: diameter = 2 r', w)
            elif k == 'formula':
                e = {'circumference': C(2) * pi * r1, 'area': pi * r1 * r1, 'surface_area': C(4) * pi * r1 * r1, 'volume': C(4) * pi * r1 * r1 * r1 / C(3)}[m['f']]
                ctx.same(key, rs.only().ret, e, 'alg=: %s formula with the constant pi' % m['f'], w)
            elif k == 'ctors':
                c = vs('a0', d); rr = sym('a1')
                vec_eq(ctx, key, rs.only().ret, c + [rr] + c + [C(1)] + c + [C(0)], 'perm: new(c, r), unit(c) has radius 1, point(c) has radius 0', w)
            elif k in ('seg_proj', 'seg_dist'):
                s = vs('a0.start', d); e = vs('a0.end', d); p = vs('a1', d)
                es = [b - a for a, b in zip(s, e)]; len_sq = dot(es, es)
                degenerate = B('truthy', fn('approx:relative_eq', len_sq, C(0), eps, eps))
                tstar = dot([x - y for x, y in zip(p, s)], es) / len_sq
                # t* is the stationary point of |start + (end-start) t - p|^2 (own derivation: derivative in t vanishes)
                ctx.same(key + '/tstar-stationary', dot(es, [s[i] + es[i] * tstar - p[i] for i in range(d)]), C(0), 'alg=: the unclamped parameter is the stationary point of the squared distance along the line', w)
                tmm = minmax('min', minmax('max', tstar, C(0)), C(1))
                paths = feasible_paths(rs)
                ctx.ob(key + '/returns', len(paths) >= 2 and all(q.out == 'ret' for q in paths), 'paths: every path returns (degenerate-length guard + the general case)', w, '>= 2 returning paths', [(q.out, str(q.panic)) for q in paths if q.out != 'ret'][:2])
                seen = set()
                for i, q in enumerate(paths):
                    if q.out != 'ret': continue
                    conds = nonconst_conds(q)
                    rest = [c for c in conds if not (c == degenerate or c == degenerate.neg())]
                    if any(c == degenerate for c in conds) and not rest:
                        exp = s; seen.add('degenerate')
                    elif any(c == degenerate.neg() for c in conds):
                        # the clamp of t* to [0,1]: written with min/max (no further decision) or with comparisons of t* against 0 and 1
                        below = any(c == lt(tstar, C(0)) or c == le(tstar, C(0)) for c in rest)
                        above = any(c == gt(tstar, C(1)) or c == ge(tstar, C(1)) for c in rest)
                        inside = any(c == gt(tstar, C(0)) or c == ge(tstar, C(0)) for c in rest) and any(c == lt(tstar, C(1)) or c == le(tstar, C(1)) for c in rest)
                        other = [c for c in rest if not any(c == f_(tstar, C(v)) for f_ in (lt, le, gt, ge) for v in (0, 1))]
                        if other:
                            ctx.ob('%s/path%d/decision' % (key, i), False, 'paths: the only decisions are the degenerate-length test and the clamp of the parameter to [0,1]', w, 'comparisons of t* with 0 and 1', [str(c) for c in other]); continue
                        g = C(0) if below else C(1) if above else tstar if inside else tmm
                        seen.add('below' if below else 'above' if above else 'inside' if inside else 'clamp')
                        exp = [s[j] + es[j] * g for j in range(d)]
                    else:
                        ctx.ob('%s/path%d/decision' % (key, i), False, 'paths: the first decision is the degenerate-length test', w, str(degenerate), [str(c) for c in conds]); continue
                    if k == 'seg_proj': vec_eq(ctx, '%s/path%d' % (key, i), q.ret, exp, 'alg=: projected point = start + (end - start) * clamp01(t*) (start for a degenerate segment)', w)
                    else: ctx.same('%s/path%d' % (key, i), q.ret, dist(exp, p), 'alg=: distance_to_point = distance(projected_point(p), p)', w)
                ctx.ob(key + '/outcomes', 'degenerate' in seen and ('clamp' in seen or {'below', 'inside', 'above'} <= seen), 'paths: the degenerate case and the whole clamp are covered', w, 'degenerate + clamp (or below/inside/above)', sorted(seen))
            elif k == 'seg_conv':
                a = vs('a0', d); b = vs('a1', d)
                vec_eq(ctx, key, rs.only().ret, a + b + a + b + [fn('toint:i64', x) for x in a + b], 'perm: From<Range>, into_range, as_ keep start/end', w)
            elif k == 'ray_new':
                vec_eq(ctx, key, rs.only().ret, vs('a0', 3) + vs('a1', 3), 'perm: Ray::new(origin, direction)', w)
            elif k == 'ray':
                ray(ctx, key, rs, w, named('eps:' + m.get('ty', 'f32')))
        except (AssertionError, KeyError, ValueError, TypeError, IndexError, ZeroDivisionError, AttributeError) as e:
            ctx.ob(key + '/paths', False, 'path structure', w, 'analysable', str(e))
    ctx.floor('roots analysed', done, len(roots))


def cross_or_det(a, b, d):
    if d == 2: return [a[0] * b[1] - a[1] * b[0]]
    return cross(a, b)


def ray(ctx, key, rs, w, eps):
    o = vs('a0.origin', 3); dr = vs('a0.direction', 3)
    v0, v1, v2 = ([sym('a1[%d].%s' % (i, c)) for c in 'xyz'] for i in range(3))
    e1 = [b - a for a, b in zip(v0, v1)]; e2 = [b - a for a, b in zip(v0, v2)]; s = [b - a for a, b in zip(v0, o)]
    # Cramer: dist*(-dir) + u*e1 + v*e2 = s   (columns of the system matrix: -dir, e1, e2)
    nd = [-x for x in dr]
    def det3(c0, c1, c2): return det([[c0[i], c1[i], c2[i]] for i in range(3)])
    D = det3(nd, e1, e2)
    dd = det3(s, e1, e2) / D; u = det3(nd, s, e2) / D; v = det3(nd, e1, s) / D
    paths = feasible_paths(rs)
    some = 0; none = 0
    a_candidates = [D, -D]
    for i, p in enumerate(paths):
        if p.out != 'ret':
            ctx.ob('%s/path%d' % (key, i), False, 'paths: no panic', w, 'returns', str(p.panic)); continue
        conds = nonconst_conds(p)
        # identify the determinant as the code orients it (a = +-D): both orientations denote the same parallel test
        a = None
        for cand in a_candidates:
            if any(c == gt(cand, -eps) or c == le(cand, -eps) for c in conds): a = cand
        if a is None:
            ctx.ob('%s/path%d/parallel-test' % (key, i), False, 'paths: every path first tests the determinant against (-eps, eps)', w, 'a > -eps ...', [str(c) for c in conds]); continue
        allowed = {'a>-e': gt(a, -eps), 'a<=-e': le(a, -eps), 'a<e': lt(a, eps), 'a>=e': ge(a, eps), 'u<0': lt(u, C(0)), 'u>=0': ge(u, C(0)), 'u>1': gt(u, C(1)), 'u<=1': le(u, C(1)),
                   'v<0': lt(v, C(0)), 'v>=0': ge(v, C(0)), 'uv>1': gt(u + v, C(1)), 'uv<=1': le(u + v, C(1))}
        names = []
        foreign = []
        for c in conds:
            nm = [n for n, b in allowed.items() if c == b]
            if nm: names.append(nm[0])
            else: foreign.append(str(c))
        ctx.ob('%s/path%d/only-documented-decisions' % (key, i), not foreign, 'paths: decisions are exactly a in (-eps,eps), u < 0, u > 1, v < 0, u + v > 1 with u, v the Cramer solution (strictness included)', w, sorted(allowed), foreign[:3])
        if foreign: continue
        nonpar = ('a<=-e' in names) or ('a>=e' in names)
        if isinstance(p.ret, Enum) and p.ret.var == 1:
            some += 1
            need = {'u>=0', 'u<=1', 'v>=0', 'uv<=1'}
            ctx.ob('%s/path%d/some-needs-all' % (key, i), nonpar and need <= set(names), 'paths: Some only when the line is not parallel and the crossing has 0 <= u <= 1, v >= 0, u + v <= 1 (boundary included)', w, sorted(need), names)
            ctx.same('%s/path%d/distance' % (key, i), p.ret.fields[0], dd, 'alg=: the returned distance is the Cramer solution: origin + d dir is the crossing point', w)
        elif isinstance(p.ret, Enum) and p.ret.var == 0:
            none += 1
            reason = (('a>-e' in names and 'a<e' in names) or 'u<0' in names or 'u>1' in names or 'v<0' in names or 'uv>1' in names)
            ctx.ob('%s/path%d/none-has-reason' % (key, i), reason, 'paths: None only when parallel (a in (-eps,eps)) or the crossing is outside the triangle', w, 'a reason literal', names)
        else:
            ctx.ob('%s/path%d/option' % (key, i), False, 'paths', w, 'Option', str(p.ret))
    ctx.ob(key + '/outcomes', some >= 1 and none >= 5, 'paths: the Some outcome(s) and the five None reasons all occur', w, 'Some >= 1, None >= 5', (some, none))
