"""C05 — quaternions form the Hamilton algebra and rotate vectors like their matrix."""
from ..run import Root, leaves, Enum
from ..alg import C, sym, fn, named, sqrt, atom_in
from ..sem import B, lt, gt, fabs
from ..shapes import *
from ..rules import feasible_paths, nonconst_conds

ID = 'C05'
Q = 'Quaternion<f32>'


def qsyms(arg): return [sym('%s.%s' % (arg, c)) for c in 'xyzw']


def v3(arg): return [sym('%s.%s' % (arg, c)) for c in 'xyz']


# quaternion basis 1,i,j,k: product table generated from i^2=j^2=k^2=ijk=-1
def _basis_table():
    # represent basis elements by index 0..3 = 1,i,j,k ; e_a*e_b = sign * e_c
    tab = {}
    for a in range(4):
        tab[(0, a)] = (1, a); tab[(a, 0)] = (1, a)
    for a in (1, 2, 3): tab[(a, a)] = (-1, 0)
    cyc = [(1, 2, 3), (2, 3, 1), (3, 1, 2)]          # ij=k, jk=i, ki=j  (from ijk=-1 and the squares)
    for a, b, c in cyc:
        tab[(a, b)] = (1, c); tab[(b, a)] = (-1, c)
    return tab


TAB = _basis_table()


def hamilton(p, q):
    """p, q as [x,y,z,w]; returns [x,y,z,w]"""
    pc = [p[3], p[0], p[1], p[2]]; qc = [q[3], q[0], q[1], q[2]]
    out = [C(0)] * 4
    for a in range(4):
        for b in range(4):
            s, c = TAB[(a, b)]
            out[c] = out[c] + C(s) * pc[a] * qc[b]
    return [out[1], out[2], out[3], out[0]]


def conj(q): return [-q[0], -q[1], -q[2], q[3]]


def norm2(q): return sum_(x * x for x in q)


def rot_matrix_of_unit(q):
    """matrix of v -> q v q* for a unit quaternion, from the sandwich applied to the basis vectors"""
    cols = []
    for a in range(3):
        e = [C(1) if i == a else C(0) for i in range(3)] + [C(0)]
        r = hamilton(hamilton(q, e), conj(q))
        cols.append(r[:3])
    return transpose(cols)


def build_roots():
    roots = []; meta = {}

    def add(name, code, max_paths=16, **m):
        roots.append(Root(name, code, max_paths=max_paths)); meta[name] = m

    add('r_mul', 'pub fn r_mul(p: %s, q: %s) -> %s { p * q }' % (Q, Q, Q), kind='mul')
    add('r_assoc_l', 'pub fn r_assoc_l(p: %s, q: %s, r: %s) -> %s { (p * q) * r }' % (Q, Q, Q, Q), kind='assoc')
    add('r_assoc_r', 'pub fn r_assoc_r(p: %s, q: %s, r: %s) -> %s { p * (q * r) }' % (Q, Q, Q, Q), kind='assoc')
    add('r_idl', 'pub fn r_idl(q: %s) -> %s { Quaternion::<f32>::identity() * q }' % (Q, Q), kind='neutral')
    add('r_idr', 'pub fn r_idr(q: %s) -> %s { q * Quaternion::identity() }' % (Q, Q), kind='neutral')
    add('r_consts', 'pub fn r_consts() -> (%s, %s, %s) { (Quaternion::identity(), Default::default(), Quaternion::zero()) }' % (Q, Q, Q), kind='consts')
    add('r_normmul', 'pub fn r_normmul(p: %s, q: %s) -> f32 { (p * q).magnitude_squared() }' % (Q, Q), kind='normmul')
    add('r_conjmul', 'pub fn r_conjmul(p: %s, q: %s) -> (%s, %s) { ((p * q).conjugate(), q.conjugate() * p.conjugate()) }' % (Q, Q, Q, Q), kind='conjmul')
    add('r_conj', 'pub fn r_conj(q: %s) -> %s { q.conjugate() }' % (Q, Q), kind='conj')
    add('r_inv', 'pub fn r_inv(q: %s) -> (%s, %s, %s) { (q.inverse(), q * q.inverse(), q.inverse() * q) }' % (Q, Q, Q, Q), kind='inv')
    add('r_qv3', 'pub fn r_qv3(q: %s, v: Vec3<f32>) -> Vec3<f32> { q * v }' % Q, kind='qv3')
    add('r_qv4', 'pub fn r_qv4(q: %s, v: Vec4<f32>) -> Vec4<f32> { q * v }' % Q, kind='qv4')
    add('r_comp', 'pub fn r_comp(p: %s, q: %s, v: Vec3<f32>) -> (Vec3<f32>, Vec3<f32>) { ((p * q) * v, p * (q * v)) }' % (Q, Q), kind='comp')
    for L in ('Rows', 'Cols'):
        add('r_m3v_%s' % L, 'pub fn r_m3v_%s(q: %s, v: Vec3<f32>) -> Vec3<f32> { %s3::from(q) * v }' % (L, Q, L), kind='matv', n=3)
        add('r_m4v_%s' % L, 'pub fn r_m4v_%s(q: %s, v: Vec4<f32>) -> Vec4<f32> { %s4::from(q) * v }' % (L, Q, L), kind='matv', n=4)
        add('r_m3q_%s' % L, 'pub fn r_m3q_%s(q: %s) -> %s3<f32> { %s3::from(q) }' % (L, Q, L, L), kind='matq', n=3, l=L)
        add('r_m4q_%s' % L, 'pub fn r_m4q_%s(q: %s) -> %s4<f32> { %s4::from(q) }' % (L, Q, L, L), kind='matq', n=4, l=L)
        for n in (3, 4):
            add('r_mft_%s%d' % (L, n), 'pub fn r_mft_%s%d(a: Vec3<f32>, b: Vec3<f32>) -> (%s%d<f32>, %s%d<f32>) { (%s%d::rotation_from_to_3d(a, b), %s%d::from(Quaternion::<f32>::rotation_from_to_3d(a, b))) }' % (L, n, L, n, L, n, L, n, L, n), kind='mft', n=n, l=L)
    add('r_scal', 'pub fn r_scal(q: %s, p: %s, s: f32) -> (%s, %s, %s, %s, %s, f32, f32, f32, %s) { (q * s, q / s, q + p, q - p, -q, q.dot(p), q.magnitude_squared(), q.magnitude(), q.normalized()) }' % (Q, Q, Q, Q, Q, Q, Q, Q), kind='scal')
    add('r_conv', 'pub fn r_conv(q: %s, v: Vec4<f32>, s: f32, u: Vec3<f32>) -> (%s, %s, (f32, Vec3<f32>), Vec4<f32>, %s, Vec3<f32>, %s, Vec4<f32>, Vec3<f32>) { (Quaternion::from_xyzw(v.x, v.y, v.z, v.w), Quaternion::from_scalar_and_vec3((s, u)), q.into_scalar_and_vec3(), q.into_vec4(), Quaternion::from_vec4(v), q.into_vec3(), Quaternion::from(v), Vec4::from(q), Vec3::from(q)) }' % (Q, Q, Q, Q, Q), kind='conv')
    # ring-only forms, also analysed with i32 elements (integer twin pass): over the integers `/` truncates, q/s is not q*(1/s)
    add('r_iscal', 'pub fn r_iscal(q: %s, p: %s, s: f32) -> (%s, %s, %s, %s, %s, f32) { (q * s, q / s, q + p, q - p, -q, q.dot(p)) }' % (Q, Q, Q, Q, Q, Q, Q), kind='iscal')
    add('r_iinv', 'pub fn r_iinv(q: %s) -> %s { q.inverse() }' % (Q, Q), kind='iinv')
    add('r_ft', 'pub fn r_ft(a: Vec3<f32>, b: Vec3<f32>) -> %s { Quaternion::<f32>::rotation_from_to_3d(a, b) }' % Q, kind='ft')
    add('r_ftapply', 'pub fn r_ftapply(a: Vec3<f32>, b: Vec3<f32>) -> Vec3<f32> { Quaternion::<f32>::rotation_from_to_3d(a, b) * a }', kind='ftapply')
    add('r_aa', 'pub fn r_aa(q: %s) -> (f32, Vec3<f32>) { q.into_angle_axis() }' % Q, kind='aa')
    return roots, meta


def unit_subst(arg='a0'):
    """q := p/|p| for a free quaternion p (rational parametrisation of the unit quaternions)"""
    p = [sym('p.' + c) for c in 'xyzw']
    n = sqrt(norm2(p))
    return {atom_in('%s.%s' % (arg, c)): p[i] / n for i, c in enumerate('xyzw')}, [x / n for x in p]


def run(ctx):
    ctx.level = 'proof'
    ctx.explanation = ('Quaternion multiplication computed from the MIR equals the Hamilton product generated from i^2=j^2=k^2=ijk=-1; associativity, neutrality of identity, multiplicative norm, conjugation reversing products and the '
                       'two-sided inverse are polynomial / rational identities on the computed values; q*Vec3 is the sandwich q v q*, q*Vec4 keeps w; for unit quaternions (q = p/|p|, p free) q*v equals Mat3::from(q)*v and '
                       'the xyz of Mat4::from(q)*v in both layouts; (p*q)*v = p*(q*v); rotation_from_to_3d: complete decision tree (3 outcomes), generic outcome maps from onto to*|from|/|to| as an identity modulo n^2 = |u|^2|v|^2, '
                       'antiparallel outcomes map from to -from; Mat3/Mat4::rotation_from_to_3d equal the matrix of that quaternion; into_angle_axis has the shape (2 acos w, v / sqrt(1-w^2)).')
    ctx.assumptions = ['f32 operations read as exact field operations; sqrt(P)^2 = P', 'unit quaternions are parametrised as p/|p|']
    roots, meta = build_roots()
    INT_KINDS = ('mul', 'assoc', 'neutral', 'consts', 'conjmul', 'conj', 'iscal', 'iinv')   # magnitude_squared needs T: Real
    if ctx.elem == 'i32': roots = [r for r in roots if meta[r.name]['kind'] in INT_KINDS]
    div = (lambda x, y: fn('idiv', x, y)) if ctx.elem == 'i32' else (lambda x, y: x / y)
    sc = ctx.scan(roots, QUICK_FEATURES)
    if sc.compile_error: return
    done = 0
    assoc = {}
    for r in roots:
        rs = sc.get(r.name); m = meta[r.name]
        if rs is None or not rs.ok: continue
        done += 1
        k = m['kind']; key = 'c05/' + r.name[2:]; w = r.code
        p0, q1, r2 = qsyms('a0'), qsyms('a1'), qsyms('a2')
        if k not in ('ft', 'ftapply', 'aa', 'mft'):
            try: p = rs.only()
            except (AssertionError, KeyError, ValueError, TypeError, IndexError, ZeroDivisionError, AttributeError) as e:
                ctx.ob(key + '/paths', False, 'branch-free', w, 'one path', str(e)); continue
        if k == 'mul':
            vec_eq(ctx, key, p.ret, hamilton(p0, q1), 'alg=: p*q is the Hamilton product', w)
        elif k == 'assoc':
            assoc[r.name] = leaves(p.ret)
            vec_eq(ctx, key, p.ret, hamilton(hamilton(p0, q1), r2), 'alg=: (p*q)*r = p*(q*r) = Hamilton triple product', w)
        elif k == 'neutral':
            vec_eq(ctx, key, p.ret, p0, 'alg=: identity is neutral', w)
        elif k == 'consts':
            i1, i2, z = p.ret
            vec_eq(ctx, key + '/identity', i1, [C(0), C(0), C(0), C(1)], 'const: identity = (0,0,0;1)', w)
            vec_eq(ctx, key + '/default', i2, [C(0), C(0), C(0), C(1)], 'const: default = identity', w)
            vec_eq(ctx, key + '/zero', z, [C(0)] * 4, 'const: zero', w)
        elif k == 'normmul':
            ctx.same(key, p.ret, norm2(p0) * norm2(q1), 'alg=: |p*q|^2 = |p|^2 |q|^2', w)
        elif k == 'conjmul':
            a, b = p.ret
            vec_eq(ctx, key, a, leaves(b), 'alg≡: conj(p*q) = conj(q)*conj(p)', w)
            vec_eq(ctx, key + '/value', a, conj(hamilton(p0, q1)), 'alg=: conj(p*q)', w)
        elif k == 'conj':
            vec_eq(ctx, key, p.ret, conj(p0), 'alg=: conjugate negates the vector part', w)
        elif k == 'inv':
            inv, a, b = p.ret
            n = norm2(p0)
            vec_eq(ctx, key + '/value', inv, [x / n for x in conj(p0)], 'alg=: inverse = conjugate / |q|^2', w)
            vec_eq(ctx, key + '/right', a, [C(0), C(0), C(0), C(1)], 'alg=: q * inverse(q) = identity', w)
            vec_eq(ctx, key + '/left', b, [C(0), C(0), C(0), C(1)], 'alg=: inverse(q) * q = identity', w)
        elif k == 'qv3':
            v = v3('a1')
            vec_eq(ctx, key, p.ret, hamilton(hamilton(p0, v + [C(0)]), conj(p0))[:3], 'alg=: q*v = vector part of q (v,0) q*', w)
        elif k == 'qv4':
            v = [sym('a1.' + c) for c in 'xyzw']
            e = hamilton(hamilton(p0, v[:3] + [C(0)]), conj(p0))[:3] + [v[3]]
            vec_eq(ctx, key, p.ret, e, 'alg=: q*Vec4 rotates xyz and leaves w untouched', w)
        elif k == 'comp':
            a, b = p.ret
            vec_eq(ctx, key, a, leaves(b), 'alg≡: (p*q)*v = p*(q*v)', w)
        elif k == 'matv':
            n = m['n']
            mp, qu = unit_subst('a0')
            v = [sym('a1.' + c) for c in 'xyzw'[:n]]
            got = [x.subs(mp) for x in leaves(p.ret)]
            e = hamilton(hamilton(qu, v[:3] + [C(0)]), conj(qu))[:3] + ([v[3]] if n == 4 else [])
            vec_eq(ctx, key, got, e, 'alg=: for unit q (q = p/|p|) Mat%d::from(q)*v = q*v' % n, w)
        elif k == 'matq':
            n = m['n']
            mp, qu = unit_subst('a0')
            G = [[x.subs(mp) for x in row] for row in mgrid(p.ret, m['l'], n)]
            R = rot_matrix_of_unit(qu)
            E = [[R[i][j] if i < 3 and j < 3 else (C(1) if i == j else C(0)) for j in range(n)] for i in range(n)]
            grid_eq(ctx, key, G, E, 'alg=: for unit q the matrix from q is the matrix of v -> q v q* (identity padding)', w)
            # orthogonality and determinant as computed facts
            Gt = transpose(G)
            grid_eq(ctx, key + '/orthogonal', matmul(G, Gt), ident(n), 'alg=: matrix of a unit quaternion is orthogonal', w)
            ctx.same(key + '/det', det(G), C(1), 'alg=: determinant +1', w)
        elif k == 'scal':
            qs, qd, qa, qm, qn, dt, ms, mg, nz = p.ret
            s = sym('a2')
            vec_eq(ctx, key + '/mul-scalar', qs, [x * s for x in p0], 'alg=: q*s per component', w)
            vec_eq(ctx, key + '/div-scalar', qd, [x / s for x in p0], 'alg=: q/s per component', w)
            vec_eq(ctx, key + '/add', qa, [x + y for x, y in zip(p0, q1)], 'alg=: + per component', w)
            vec_eq(ctx, key + '/sub', qm, [x - y for x, y in zip(p0, q1)], 'alg=: - per component', w)
            vec_eq(ctx, key + '/neg', qn, [-x for x in p0], 'alg=: neg per component', w)
            ctx.same(key + '/dot', dt, dot(p0, q1), 'alg=: dot', w)
            ctx.same(key + '/magnitude_squared', ms, norm2(p0), 'alg=: magnitude_squared', w)
            ctx.same(key + '/magnitude', mg, sqrt(norm2(p0)), 'alg=: magnitude', w)
            vec_eq(ctx, key + '/normalized', nz, [x / sqrt(norm2(p0)) for x in p0], 'alg=: normalized = q/|q|', w)
        elif k == 'iscal':
            qs, qd, qa, qm, qn, dt = p.ret
            s = sym('a2')
            vec_eq(ctx, key + '/mul-scalar', qs, [x * s for x in p0], 'alg=: q*s per component', w)
            vec_eq(ctx, key + '/div-scalar', qd, [div(x, s) for x in p0], 'alg=: q/s is the scalar division of each component (truncating for integers: not a multiplication by 1/s)', w)
            vec_eq(ctx, key + '/add', qa, [x + y for x, y in zip(p0, q1)], 'alg=: + per component', w)
            vec_eq(ctx, key + '/sub', qm, [x - y for x, y in zip(p0, q1)], 'alg=: - per component', w)
            vec_eq(ctx, key + '/neg', qn, [-x for x in p0], 'alg=: neg per component', w)
            ctx.same(key + '/dot', dt, dot(p0, q1), 'alg=: dot', w)
        elif k == 'iinv':
            vec_eq(ctx, key + '/value', p.ret, [div(x, norm2(p0)) for x in conj(p0)], 'alg=: inverse = conjugate / |q|^2, each component divided once', w)
        elif k == 'conv':
            v = [sym('a1.' + c) for c in 'xyzw']; s = sym('a2'); u = v3('a3')
            a, b, c, d, e, f, g, h, i = p.ret
            vec_eq(ctx, key + '/from_xyzw', a, v, 'perm: from_xyzw', w)
            vec_eq(ctx, key + '/from_scalar_and_vec3', b, u + [s], 'perm: from_scalar_and_vec3: w = scalar', w)
            vec_eq(ctx, key + '/into_scalar_and_vec3', c, [p0[3]] + p0[:3], 'perm: into_scalar_and_vec3 = (w, xyz)', w)
            vec_eq(ctx, key + '/into_vec4', d, p0, 'perm: into_vec4', w)
            vec_eq(ctx, key + '/from_vec4', e, v, 'perm: from_vec4', w)
            vec_eq(ctx, key + '/into_vec3', f, p0[:3], 'perm: into_vec3 = xyz', w)
            vec_eq(ctx, key + '/From<Vec4>', g, v, 'perm: From<Vec4>', w)
            vec_eq(ctx, key + '/Vec4::from', h, p0, 'perm: Vec4::from(q)', w)
            vec_eq(ctx, key + '/Vec3::from', i, p0[:3], 'perm: Vec3::from(q)', w)
        elif k in ('ft', 'ftapply'):
            u = v3('a0'); v = v3('a1')
            n = sqrt(dot(u, u) * dot(v, v)); eps = named('eps:f32')
            wq = n + dot(u, v)
            c_anti = lt(wq, n * eps)
            c_xz = gt(fabs(u[0]), fabs(u[2]))
            paths = feasible_paths(rs)
            ctx.ob(key + '/paths', len(paths) == 3, 'paths: generic, antiparallel with |x|>|z|, antiparallel otherwise', w, 3, len(paths))
            seen = set()
            for p in paths:
                if p.out != 'ret':
                    ctx.ob(key + '/returns', False, 'paths', w, 'returns', p.out); continue
                conds = nonconst_conds(p)
                if any(c == c_anti.neg() for c in conds): which = 'generic'; want = [c_anti.neg()]
                elif any(c == c_anti for c in conds) and any(c == c_xz for c in conds): which = 'anti-xy'; want = [c_anti, c_xz]
                elif any(c == c_anti for c in conds) and any(c == c_xz.neg() for c in conds): which = 'anti-yz'; want = [c_anti, c_xz.neg()]
                else: which = 'unknown'; want = []
                ok = which != 'unknown' and which not in seen and len(conds) == len(want)
                seen.add(which)
                ctx.ob('%s/guard/%s' % (key, which), ok, 'paths: branch conditions are w < |u||v| eps and |from.x| > |from.z|', w, [str(c) for c in want], [str(c) for c in conds])
                if which == 'unknown': continue
                if k == 'ft':
                    if which == 'generic': raw = cross(u, v) + [wq]
                    elif which == 'anti-xy': raw = [-u[1], u[0], C(0), C(0)]
                    else: raw = [C(0), -u[2], u[1], C(0)]
                    nn = sqrt(norm2(raw))
                    vec_eq(ctx, '%s/value/%s' % (key, which), p.ret, [x / nn for x in raw], 'alg=: normalised (from x to, |u||v| + from.to) / rotation by pi about an axis orthogonal to from', w)
                else:
                    if which == 'generic':
                        e = [x * dot(u, u) / n for x in v]
                        vec_eq(ctx, '%s/maps-from-onto-to' % key, p.ret, e, 'alg=: rotation_from_to(from,to)*from = to*|from|/|to|  (identity modulo n^2 = |from|^2|to|^2)', w)
                    else:
                        vec_eq(ctx, '%s/antiparallel/%s' % (key, which), p.ret, [-x for x in u], 'alg=: on the antiparallel branch the rotation maps from to -from', w)
        elif k == 'mft':
            paths = feasible_paths(rs)
            ctx.ob(key + '/paths', len(paths) == 3, 'paths: same three outcomes as the quaternion form', w, 3, len(paths))
            for i, p in enumerate(paths):
                if p.out != 'ret': continue
                a, b = p.ret
                vec_eq(ctx, '%s/path%d' % (key, i), a, leaves(b), 'alg≡: Mat::rotation_from_to_3d = Mat::from(Quaternion::rotation_from_to_3d)', w)
        elif k == 'aa':
            x, y, z, wq = p0; eps = named('eps:f32')
            s = sqrt(C(1) - wq * wq)
            guard = lt(s, eps)
            paths = feasible_paths(rs)
            ctx.ob(key + '/paths', len(paths) == 2, 'paths: degenerate (sqrt(1-w^2) < eps) and generic', w, 2, len(paths))
            for p in paths:
                if p.out != 'ret': continue
                conds = nonconst_conds(p)
                ang, ax = p.ret
                ctx.same(key + '/angle/%d' % len(ctx.keys), ang, C(2) * fn('acos', wq), 'alg=: angle = 2 acos(w)', w)
                if any(c == guard for c in conds):
                    vec_eq(ctx, key + '/axis/degenerate', ax, [C(1), C(0), C(0)], 'const: any unit axis for the identity rotation', w)
                elif any(c == guard.neg() for c in conds):
                    vec_eq(ctx, key + '/axis/generic', ax, [x / s, y / s, z / s], 'alg=: axis = v / sqrt(1 - w^2) (unit for a unit quaternion: |v|^2 = 1 - w^2)', w)
                else:
                    ctx.ob(key + '/guard', False, 'paths: guard is sqrt(1-w^2) < eps', w, str(guard), [str(c) for c in conds])
    if 'r_assoc_l' in assoc and 'r_assoc_r' in assoc:
        vec_eq(ctx, 'c05/assoc/l=r', assoc['r_assoc_l'], assoc['r_assoc_r'], 'alg≡: (p*q)*r = p*(q*r)', 'Quaternion::mul')
    ctx.floor('roots analysed', done, len(roots))
    if ctx.elem != 'i32': ctx.floor('obligations', ctx.obligations, 250)

    # scalar + vector conversion to and from the optional mint quaternion (rule shared with C20)
    if not ctx.only and ctx.elem == 'f32':
        from .c20 import mint_rule
        mint_rule(ctx, prefix='c05', only_kinds=('qfrom', 'qinto'))
