"""C15 — Bezier extrema, bounding boxes and discretised length (structural clauses; search is declined)."""
import itertools
from fractions import Fraction
from ..run import Root, leaves, Enum
from ..alg import C, sym, fn, Rat, named, atom_in
from ..sem import B, lt, le, gt, ge, fabs, num_fn
from ..shapes import *
from ..rules import feasible_paths, nonconst_conds, cond_leaves
from ..ordeval import CompiledRoot, wo, value
from ..rules import pure_comparison
from .. import alg

ID = 'C15'
CURVES = [('QuadraticBezier2', 2, 2), ('QuadraticBezier3', 2, 3), ('CubicBezier2', 3, 2), ('CubicBezier3', 3, 3)]   # name, degree, dimension
CP = {2: ['start', 'ctrl', 'end'], 3: ['start', 'ctrl0', 'ctrl1', 'end']}
PRELUDE = '''
pub struct Two<T>(pub Option<T>, pub Option<T>);
impl<T> Iterator for Two<T> { type Item = T; fn next(&mut self) -> Option<T> { if let Some(x) = self.0.take() { Some(x) } else { self.1.take() } } }
'''
BINOM = {0: [1], 1: [1, 1], 2: [1, 2, 1], 3: [1, 3, 3, 1]}


def cps(arg, deg, axis): return [sym('%s.%s.%s' % (arg, n, axis)) for n in CP[deg]]


def bern(P, t):
    n = len(P) - 1
    out = C(0)
    for k, p in enumerate(P):
        term = C(BINOM[n][k]) * p
        for _ in range(n - k): term = term * (C(1) - t)
        for _ in range(k): term = term * t
        out = out + term
    return out


def dbern(P, t):
    n = len(P) - 1
    return C(n) * bern([P[k + 1] - P[k] for k in range(n)], t)


def build_roots():
    roots = []; meta = {}

    def add(name, code, max_paths=64, opaque=(), **m):
        roots.append(Root(name, code, max_paths=max_paths, opaque=opaque)); meta[name] = m

    for cn, deg, dim in CURVES:
        CT = '%s<f32>' % cn
        for ax in 'xyz'[:dim]:
            infl = '%s_inflection%s' % (ax, 's' if deg == 3 else '')
            rt = 'Option<f32>' if deg == 2 else 'Option<(f32, Option<f32>)>'
            add('r_infl_%s_%s' % (cn, ax), 'pub fn r_infl_%s_%s(c: %s) -> %s { c.%s() }' % (cn, ax, CT, rt, infl), kind='infl', c=cn, deg=deg, dim=dim, ax=ax)
            add('r_infl64_%s_%s' % (cn, ax), 'pub fn r_infl64_%s_%s(c: %s<f64>) -> %s { c.%s() }' % (cn, ax, cn, rt.replace('f32', 'f64'), infl), kind='infl', c=cn, deg=deg, dim=dim, ax=ax, ty='f64')
            for mm in ('min', 'max'):
                add('r_%s_%s_%s' % (mm, cn, ax), 'pub fn r_%s_%s_%s(c: %s) -> f32 { c.%s_%s() }' % (mm, cn, ax, CT, mm, ax), opaque=['*::' + infl, '*%s*::evaluate' % cn], max_paths=400, kind='minmax', c=cn, deg=deg, dim=dim, ax=ax, mm=mm)
            add('r_bounds_%s_%s' % (cn, ax), 'pub fn r_bounds_%s_%s(c: %s) -> (f32, f32) { c.%s_bounds() }' % (cn, ax, CT, ax), opaque=['*::min_' + ax, '*::max_' + ax], kind='bounds', c=cn, deg=deg, dim=dim, ax=ax)
        box = 'aabr' if dim == 2 else 'aabb'; BT = 'Aabr<f32>' if dim == 2 else 'Aabb<f32>'
        add('r_box_%s' % cn, 'pub fn r_box_%s(c: %s) -> %s { c.%s() }' % (cn, CT, BT, box), opaque=['*::%s_bounds' % a for a in 'xyz'[:dim]], kind='box', c=cn, deg=deg, dim=dim)
        if dim == 3:
            # 3D curves also have aabr() (x and y only, z discarded)
            add('r_box2_%s' % cn, 'pub fn r_box2_%s(c: %s) -> Aabr<f32> { c.aabr() }' % (cn, CT), opaque=['*::%s_bounds' % a for a in 'xy'], kind='box', c=cn, deg=deg, dim=dim, bdim=2)
        PT = 'Vec%d<f32>' % dim
        add('r_search_%s' % cn, 'pub fn r_search_%s(c: %s, p: %s, t1: f32, p1: %s, t2: f32, p2: %s) -> (f32, %s) { c.binary_search_point(p, Two(Some((t1, p1)), Some((t2, p2))), 0.0, 1.0) }' % (cn, CT, PT, PT, PT, PT),
            opaque=['*::distance_squared', '*::distance', '*::magnitude', '*::magnitude_squared'], kind='search', c=cn, deg=deg, dim=dim, steps=None)
        for st in (1, 2, 4):
            add('r_search_steps_%s_%d' % (cn, st), 'pub fn r_search_steps_%s_%d(c: %s, p: %s) -> (f32, %s) { c.binary_search_point_by_steps(p, %d, 1.0) }' % (cn, st, CT, PT, PT, st),
                opaque=['*::distance_squared', '*::distance', '*::magnitude', '*::magnitude_squared', '*%s*::evaluate' % cn], kind='search', c=cn, deg=deg, dim=dim, steps=st)
        for n in (0, 1, 2, 3, 7):
            add('r_len_%s_%d' % (cn, n), 'pub fn r_len_%s_%d(c: %s) -> f32 { c.length_by_discretization(%d) }' % (cn, n, CT, n), kind='len', c=cn, deg=deg, dim=dim, n=n, max_paths=300)
    return roots, meta


def guarded_quantities(conds, eps):
    """quantities q for which the path carries the condition |q| > eps"""
    out = []
    for c in conds:
        if not isinstance(c, B): continue
        for a in c.atoms():
            kind, name, args = alg._ATOMS[a]
            if kind == 'fn' and name == 'abs' and len(args) == 1 and c == gt(fabs(args[0]), eps): out.append(args[0])
    return out


def denominator_guarded(t, conds, eps):
    """every non-constant factor of the denominator of t is a quantity the path keeps away from zero"""
    d = t.den
    if d.is_const(): return True, None
    for _ in range(8):
        if d.is_const(): return True, None
        hit = False
        for q in guarded_quantities(conds, eps):
            if not q.is_poly(): continue
            r = alg.poly_divexact(d, q.num)
            if r is not None:
                d = r; hit = True; break
        if not hit: break
    return d.is_const(), d


def guarded(t, conds):
    lo = any(c == ge(t, C(0)) or c == gt(t, C(0)) for c in conds)
    hi = any(c == le(t, C(1)) or c == lt(t, C(1)) for c in conds)
    return lo and hi


def run(ctx):
    ctx.level = 'other'
    ctx.explanation = ('Three structural clauses of the property are decided from the MIR; the numeric ones are declined (DESIGN.md, C15). (1) inflection(s): complete path set; every non-constant parameter returned is guarded on its path by 0 <=(<) t and t <=(<) 1, '
                       'and is a zero of the derivative of the Bernstein polynomial (exactly; in the negligible-leading-coefficient / negligible-discriminant arms a zero of the derivative with that coefficient dropped). (2) min_*/max_*: with the inflection query and evaluate summarised, '
                       'the path set is evaluated on every weak ordering of the candidate coordinates {start, end, curve at each reported inflection} and every presence pattern of inflections: the returned parameter is 0, 1 or a reported inflection and its coordinate is the minimum (maximum) of the candidates, '
                       'on the right axis. (3) aabr/aabb: each slot is the coordinate of its own axis of the curve evaluated at the bound parameter of that axis (a parameter in a coordinate slot is a violation). '
                       '(4) length_by_discretization(n) for constant n is exactly the polyline length through evaluate(i/(n+1)), whose sample parameters for n are a subset of those for 2n+1 (so chord <= length, and refinement by doubling cannot decrease it, by the triangle inequality).')
    ctx.assumptions = ['exact arithmetic', 'extremality over all t follows from calculus: a polynomial on [0,1] attains its extrema at 0, 1 or interior zeros of its derivative; the inflection queries report every interior zero of a quadratic / linear derivative (checked: they return the zeros of the derivative polynomial)',
                       'declined: binary_search_point(_by_steps) (data-dependent loop), the box touching the curve and upper bound by the control polygon as computed facts, f64 sampling']
    roots, meta = build_roots()
    sc = ctx.scan(roots, QUICK_FEATURES, extra_prelude=PRELUDE)
    if sc.compile_error: return
    done = 0
    eps = named('eps:f32')
    for r in roots:
        rs = sc.get(r.name); m = meta[r.name]
        if rs is None or not rs.ok: continue
        done += 1
        k = m['kind']; key = 'c15/' + r.name[2:]; w = r.code; deg = m['deg']; dim = m['dim']
        try:
            if k == 'infl': infl(ctx, key, rs, w, m, named('eps:' + m.get('ty', 'f32')))
            elif k == 'minmax': minmax_rule(ctx, key, rs, w, m)
            elif k == 'search': search_rule(ctx, key, rs, w, m)
            elif k == 'bounds':
                p = rs.only(); calls = p.ev('call')
                names = [c[1].split('::')[-1] for c in calls]
                ctx.ob(key, names == ['min_' + m['ax'], 'max_' + m['ax']] and [str(x) for x in leaves(p.ret)] == [str(p.term(c[3])) for c in calls], 'deleg: *_bounds = (min parameter, max parameter) of the same axis', w, ['min_' + m['ax'], 'max_' + m['ax']], names)
            elif k == 'box':
                p = rs.only(); calls = {c[1].split('::')[-1]: p.term(c[3]) for c in p.ev('call')}
                got = leaves(p.ret)
                exp = []
                bdim = m.get('bdim', dim)
                for which in (0, 1):
                    for ax in 'xyz'[:bdim]:
                        bn = ax + '_bounds'
                        if bn not in calls: exp.append(None); continue
                        t = fn('ret:%d' % which, calls[bn])
                        exp.append(bern(cps('a0', deg, ax), t))
                names = ['%s.%s' % (mm, ax) for mm in ('min', 'max') for ax in 'xyz'[:bdim]]
                ctx.ob(key + '/slots', len(got) == len(names), 'shape', w, len(names), len(got))
                for nm, g, e in zip(names, got, exp):
                    if e is None: ctx.ob('%s/%s' % (key, nm), False, 'deleg: the box is built from the axis bounds', w, 'bounds query', 'missing'); continue
                    kind = 'parameter' if any(g == fn('ret:%d' % i, c) for c in calls.values() for i in (0, 1)) else 'other'
                    ctx.ob('%s/%s' % (key, nm), g == e, 'alg=: box slot = coordinate (of its own axis) of the curve at the bound parameter of that axis; a parameter value in a coordinate slot is a violation', w, str(e), '%s (%s)' % (g, kind))
            elif k == 'len':
                n = m['n']; p = rs.only()
                pts = []
                for i in range(n + 2):
                    t = C(Fraction(i, n + 1))
                    pts.append([bern(cps('a0', deg, ax), t) for ax in 'xyz'[:dim]])
                e = C(0)
                for i in range(1, n + 2):
                    e = e + alg.sqrt(sum_((pts[i][j] - pts[i - 1][j]) * (pts[i][j] - pts[i - 1][j]) for j in range(dim)))
                ctx.same(key, p.ret, e, 'alg=: length_by_discretization(n) = polyline length through evaluate(i/(n+1)), i = 0..n+1 (n = 0 is the chord; the samples for n are a subset of those for 2n+1)', w)
        except (AssertionError, KeyError, ValueError, TypeError, IndexError, ZeroDivisionError, AttributeError) as e:
            ctx.ob(key + '/paths', False, 'path structure', w, 'analysable', str(e))
    ctx.floor('roots analysed', done, len(roots))
    ctx.floor('API uses generated (counted at implementation time)', len(roots), 92)


def infl(ctx, key, rs, w, m, eps):
    deg = m['deg']; ax = m['ax']
    P = cps('a0', deg, ax)
    tt = sym('t'); D = dbern(P, tt); tat = atom_in('t')
    paths = feasible_paths(rs)
    somes = 0
    if deg == 3:
        # derivative a t^2 + b t + c
        c0 = D.subs({tat: C(0)}); d1 = D.diff(tat); b0 = d1.subs({tat: C(0)}); a0 = d1.diff(tat) / C(2)
        disc = b0 * b0 - C(4) * a0 * c0
    for i, p in enumerate(paths):
        if p.out != 'ret':
            ctx.ob('%s/path%d' % (key, i), False, 'paths: no panic', w, 'returns', str(p.panic)); continue
        if not (isinstance(p.ret, Enum) and p.ret.var == 1): continue
        somes += 1
        ts = [x for x in leaves(p.ret.fields[0]) if isinstance(x, Rat)]
        # nested Option payloads
        def collect(v, out):
            if isinstance(v, Enum):
                for f in v.fields: collect(f, out)
            elif isinstance(v, list):
                for f in v: collect(f, out)
            elif isinstance(v, Rat): out.append(v)
        ts = []; collect(p.ret.fields, ts)
        conds = nonconst_conds(p)
        for j, t in enumerate(ts):
            if t.is_const():
                ctx.ob('%s/path%d/t%d/constant-in-range' % (key, i, j), t.const_value() in (0, 1), 'a constant parameter is 0 or 1', w, '0 or 1', str(t)); continue
            ctx.ob('%s/path%d/t%d/in-unit-interval' % (key, i, j), guarded(t, conds), 'paths: a reported inflection parameter is guarded by 0 <=(<) t and t <=(<) 1 on its path', w, '0 <= t <= 1 among the path conditions', 't = %s ; conditions: %s' % (str(t)[:160], [str(c)[:120] for c in conds]))
            okd, left = denominator_guarded(t, conds, eps)
            ctx.ob('%s/path%d/t%d/denominator-guarded' % (key, i, j), okd, 'paths: a reported parameter divides only by quantities the path keeps away from zero (|q| > epsilon), so no root is lost to a 0/0', w, 'denominator factors among the guarded quantities', 'unguarded denominator factor: %s' % (str(left)[:200],))
            z = D.subs({tat: t})
            ok = z.is_zero()
            why = 'zero of the derivative'
            if not ok and deg == 3:
                if any(c == le(fabs(a0), eps) for c in conds) and (b0 * t + c0).is_zero(): ok = True; why = 'zero of the derivative with the negligible quadratic coefficient dropped'
                elif any(c == le(fabs(disc), eps) for c in conds) and (C(2) * a0 * t + b0).is_zero(): ok = True; why = 'double root of the derivative (negligible discriminant)'
            ctx.ob('%s/path%d/t%d/zero-of-derivative' % (key, i, j), ok, 'alg=: a reported inflection parameter is a zero of the derivative of the Bernstein polynomial on this axis', w, 'B\'(t) = 0', 'B\'(%s) = %s' % (str(t)[:120], str(z)[:200]))
    ctx.ob(key + '/reports-something', somes >= 1, 'paths', w, '>= 1 Some path', somes)


def minmax_rule(ctx, key, rs, w, m):
    deg = m['deg']; ax = m['ax']; axi = 'xyz'.index(ax); mm = m['mm']
    S = sym('a0.start.' + ax); E = sym('a0.end.' + ax)
    infl_name = '%s_inflection%s' % (ax, 's' if deg == 3 else '')
    # discover the atoms: inflection call, its discriminants/payloads, evaluate calls and the coordinate they are read at
    icall = None; evals = {}     # str(t) -> (t, evaluate-call atom)
    for p in rs.paths:
        for c in p.ev('call'):
            nm = c[1].split('::')[-1]
            if nm == infl_name: icall = p.term(c[3])
            elif nm == 'evaluate':
                t = p.term(c[2][-1]); evals[str(t)] = (t, p.term(c[3]))
            else:
                ctx.ob(key + '/callees', False, 'deleg: min/max consult only the inflection query of their axis and evaluate', w, [infl_name, 'evaluate'], c[1]); return
    if icall is None:
        ctx.ob(key + '/uses-inflections', False, 'deleg: min/max consult the inflection query of their own axis', w, infl_name, 'no such call'); return
    atoms_in_conds = set()
    for p in rs.paths:
        for c in cond_leaves(p):
            if isinstance(c, B): atoms_in_conds |= c.atoms()
    discr = []; coord_atoms = {}
    for a in sorted(atoms_in_conds):
        kind, name, args = alg._ATOMS[a]
        if kind == 'fn' and name == 'discr': discr.append(a)
        elif kind == 'fn' and name.startswith('ret:'):
            coord_atoms[a] = (int(name[4:]), args[0])
        elif kind == 'in':
            if alg._ATOMS[a][1] not in ('a0.start.' + ax, 'a0.end.' + ax):
                ctx.ob(key + '/axis', False, 'the decision uses only coordinates of its own axis', w, 'a0.start.%s / a0.end.%s' % (ax, ax), alg._ATOMS[a][1]); return
    wrong_axis = [alg.atom_str(a) for a, (k_, _) in coord_atoms.items() if k_ != axi]
    ctx.ob(key + '/axis-of-curve-points', not wrong_axis, 'the curve points are compared on the axis of the query', w, 'ret:%d of evaluate' % axi, wrong_axis[:2])
    if wrong_axis: return
    # map each evaluated parameter to the atom of its coordinate
    X = {}
    for ts, (t, ecall) in evals.items():
        xa = fn('ret:%d' % axi, ecall)
        X[ts] = (t, xa)
    # presence atoms: discr(icall) and (cubic) discr of the inner option
    d_outer = fn('discr', icall)
    d_atoms = [Rat.atom(a) for a in discr]
    if not any(d == d_outer for d in d_atoms):
        ctx.ob(key + '/presence', False, 'paths: branches on the presence of an inflection', w, str(d_outer), [str(d) for d in d_atoms]); return
    inner = [d for d in d_atoms if not (d == d_outer)]
    # soundness of the order-type evaluation below: the candidates are used through comparisons only
    impure = [str(c) for p in rs.paths for c in p.conds if not pure_comparison(c)]
    if impure:
        ctx.ob(key + '/comparisons-only', False, 'ord (side condition): min/max selection compares the candidate coordinates and nothing else', w, 'every branch condition is a comparison of two quantities', impure[:3]); return
    cr = CompiledRoot(rs)
    quantities = [S, E] + [xa for (_, xa) in X.values()]
    tlist = list(X.values())
    n = 0; bad = None
    for pres in itertools.product([0, 1], repeat=1 + len(inner)):
        if pres[0] == 0 and any(pres[1:]): continue
        for ranks in wo(len(quantities)):
            env = {'__fn__': num_fn}
            for q, rk in zip(quantities, ranks):
                (mono, _), = q.num.t.items(); env[mono[0][0]] = Fraction(rk)
            (mono, _), = d_outer.num.t.items(); env[mono[0][0]] = Fraction(pres[0])
            for d, v in zip(inner, pres[1:]):
                (mono, _), = d.num.t.items(); env[mono[0][0]] = Fraction(v)
            try: p = cr.run(env)
            except (AssertionError, KeyError) as e:
                bad = ('ordering %s presence %s' % (ranks, pres), 'a unique feasible path', 'evaluation failed: %r' % (e,)); break
            n += 1
            if p.out != 'ret': bad = ('ordering %s' % (ranks,), 'returns', 'panic'); break
            ret = p.ret
            # candidates present in this case: endpoints + reported inflections (first always when present; second when the inner option is Some)
            cand = [Fraction(ranks[0]), Fraction(ranks[1])]
            present_ts = []
            if pres[0]:
                # order of parameters: the one reached through the fewest projections is the first
                ordered = sorted(tlist, key=lambda tx: len(str(tx[0])))
                present_ts = ordered[:1 + (1 if (len(pres) > 1 and pres[1]) else 0)]
                for (t, xa) in present_ts:
                    (mono, _), = xa.num.t.items(); cand.append(env[mono[0][0]])
            want = min(cand) if mm == 'min' else max(cand)
            if ret.is_const() and ret.const_value() in (0, 1): got = cand[int(ret.const_value())]; what = str(ret)
            else:
                hit = [(t, xa) for (t, xa) in present_ts if ret == t]
                if not hit:
                    bad = ('ordering %s presence %s' % (ranks, pres), '0, 1 or a reported inflection parameter', str(ret)[:200]); break
                (mono, _), = hit[0][1].num.t.items(); got = env[mono[0][0]]; what = 'inflection'
            if got != want:
                bad = ('ranks (start,end,curve@inflections)=%s presence=%s' % (ranks, pres), 'parameter whose coordinate is the %s of the candidates (%s)' % (mm, want), 'returned %s with coordinate rank %s' % (what, got)); break
        if bad: break
    ctx.counts['orderings:' + key] = n
    ctx.ob(key, bad is None and n > 0, 'ord: the returned parameter is 0, 1 or a reported inflection and the curve coordinate there is the %s over {start, end, curve at every reported inflection}, for every weak ordering of these coordinates and every presence pattern' % mm, w, '%d cases' % n, bad)


def search_rule(ctx, key, rs, w, m):
    """coarse phase of the closest-point search (no refinement: half interval 0 < epsilon 1): the returned (parameter, point) is the end point
    or a coarse sample, whichever has the least squared distance to the query; distances are compared on one scale; sample parameters are i/steps"""
    dim = m['dim']; ax = 'xyz'[:dim]; steps = m['steps']
    q = [sym('a1.' + c) for c in ax]
    end = [sym('a0.end.' + c) for c in ax]
    paths = [p for p in feasible_paths(rs)]
    rets = [p for p in paths if p.out == 'ret']
    if not ctx.ob(key + '/returns', len(rets) >= 2 and len(rets) == len(paths), 'paths: the only panic is the documented epsilon assertion (infeasible for epsilon = 1)', w, 'returning paths only', [(p.out, str(p.panic)) for p in paths if p.out != 'ret'][:2]): return
    # candidates
    cands = [(C(1), end)]
    if steps is None:
        cands.append((sym('a2'), [sym('a3.' + c) for c in ax])); cands.append((sym('a4'), [sym('a5.' + c) for c in ax]))
    else:
        ecalls = {}
        for p in rets:
            for c in p.ev('call'):
                if c[1].split('::')[-1] == 'evaluate': ecalls[str(p.term(c[2][-1]))] = (p.term(c[2][-1]), p.term(c[3]))
        ts = sorted(ecalls)
        want = sorted(str(C(Fraction(i, steps))) for i in range(steps))
        if not ctx.ob(key + '/sample-parameters', ts == want, 'deleg: the coarse samples are the curve points at the parameters i/steps, i = 0..steps-1', w, want, ts): return
        for tsr in ts:
            t, ecall = ecalls[tsr]
            cands.append((t, [fn('ret:%d' % i, ecall) for i in range(dim)]))
    # distance atoms
    D = {}
    for p in rets:
        for c in p.ev('call'):
            nm = c[1].split('::')[-1]
            if nm == 'evaluate': continue
            if nm != 'distance_squared':
                ctx.ob(key + '/one-scale', False, 'deleg: candidates are compared by squared distance throughout (mixing distance and squared distance picks a farther point)', w, 'distance_squared', nm); return
            args = [p.term(t) for t in c[2]]
            a, b = args[:dim], args[dim:]
            pt = b if all(x == y for x, y in zip(a, q)) else a if all(x == y for x, y in zip(b, q)) else None
            if pt is None:
                ctx.ob(key + '/distance-to-query', False, 'deleg: every distance is measured to the query point', w, [str(x) for x in q], [str(x) for x in args]); return
            D[tuple(str(x) for x in pt)] = Rat.atom(list(p.term(c[3]).atoms())[0]) if len(p.term(c[3]).atoms()) == 1 else p.term(c[3])
    dat = []
    for t, pt in cands:
        k_ = tuple(str(x) for x in pt)
        if k_ not in D:
            ctx.ob(key + '/all-candidates-measured', False, 'deleg: the end point and every coarse sample are measured', w, k_, sorted(D)); return
        dat.append(D[k_])
    impure = [str(c) for p in rs.paths for c in p.conds if not pure_comparison(c)]
    if impure:
        ctx.ob(key + '/comparisons-only', False, 'ord (side condition): the search compares the measured distances (and the tolerance constants) and nothing else', w, 'every branch condition is a comparison of two quantities', impure[:3]); return
    cr = CompiledRoot(rs)
    n = 0; bad = None
    for ranks in wo(len(cands)):
        env = {'__fn__': num_fn}
        for d, rk in zip(dat, ranks):
            (mono, _), = d.num.t.items(); env[mono[0][0]] = Fraction(rk)
        from ..rules import const_env
        env.update(const_env())
        try: p = cr.run(env)
        except (AssertionError, KeyError) as e:
            bad = (ranks, 'a unique feasible path', 'evaluation failed: %r' % (e,)); break
        n += 1
        if p.out != 'ret': bad = (ranks, 'returns', 'panic'); break
        t, pt = p.ret[0], leaves(p.ret[1])
        hit = [i for i, (ct, cp) in enumerate(cands) if t == ct and len(pt) == len(cp) and all(x == y for x, y in zip(pt, cp))]
        if not hit:
            bad = (ranks, 'one of the candidates (parameter together with its own point)', '(%s, %s)' % (t, [str(x) for x in pt])); break
        if ranks[hit[0]] != min(ranks):
            bad = ('distance ranks (end, samples...) = %s' % (ranks,), 'a candidate at minimal distance', 'candidate #%d with rank %d' % (hit[0], ranks[hit[0]])); break
    ctx.counts['orderings:' + key] = n
    ctx.ob(key, bad is None and n > 0, 'ord: without refinement the search returns (parameter, point) of the end point or a coarse sample that is no farther from the query than any of them, for every weak ordering of their distances', w, '%d orderings' % n, bad)
