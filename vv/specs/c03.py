"""C03 — element (i,j) means row i, column j in every matrix API, whatever the layout."""
from ..run import Root, leaves, Ptr, Enum
from ..alg import C, sym, fn
from ..sem import B
from ..shapes import *

ID = 'C03'


def M(l, n, t='f32'): return '%s%d<%s>' % (l, n, t)


def arr_syms(arg, n): return [sym('%s[%d]' % (arg, k)) for k in range(n)]


def build_roots(tier):
    roots = []; meta = {}

    def add(name, code, max_paths=64, **m):
        roots.append(Root(name, code, max_paths=max_paths)); meta[name] = m

    for n in (2, 3, 4):
        V = 'Vec%d<f32>' % n
        nn = n * n
        for L in ('Rows', 'Cols'):
            T = M(L, n); tag = '%s%d' % (L, n); O = 'Cols' if L == 'Rows' else 'Rows'
            args = ', '.join('m[%d]' % k for k in range(nn))
            add('r_new_' + tag, 'pub fn r_new_%s(m: [f32; %d]) -> %s { %s%d::new(%s) }' % (tag, nn, T, L, n, args), kind='new', n=n, l=L)
            for i in range(n):
                for j in range(n):
                    add('r_idx_%s_%d%d' % (tag, i, j), 'pub fn r_idx_%s_%d%d(a: &%s) -> &f32 { &a[(%d, %d)] }' % (tag, i, j, T, i, j), kind='idx', n=n, l=L, i=i, j=j)
                    add('r_idxm_%s_%d%d' % (tag, i, j), 'pub fn r_idxm_%s_%d%d(a: &mut %s, v: f32) { a[(%d, %d)] = v; }' % (tag, i, j, T, i, j), kind='idxm', n=n, l=L, i=i, j=j)
            # out-of-range (row, col): a panic, never a neighbouring element (a flat bounds check would accept (n, 0))
            for (i, j) in ((n, 0), (0, n), (n, n - 1), (n - 1, n)):
                add('r_idxoob_%s_%d%d' % (tag, i, j), 'pub fn r_idxoob_%s_%d%d(a: &%s) -> &f32 { &a[(%d, %d)] }' % (tag, i, j, T, i, j), kind='idxoob', n=n, l=L, i=i, j=j)
                add('r_idxmoob_%s_%d%d' % (tag, i, j), 'pub fn r_idxmoob_%s_%d%d(a: &mut %s, v: f32) { a[(%d, %d)] = v; }' % (tag, i, j, T, i, j), kind='idxoob', n=n, l=L, i=i, j=j)
            add('r_transposed_' + tag, 'pub fn r_transposed_%s(a: %s) -> %s { a.transposed() }' % (tag, T, T), kind='unary', f='transposed', n=n, l=L)
            add('r_transpose_' + tag, 'pub fn r_transpose_%s(a: &mut %s) { a.transpose() }' % (tag, T), kind='inplace', f='transposed', n=n, l=L)
            add('r_diagonal_' + tag, 'pub fn r_diagonal_%s(a: %s) -> %s { a.diagonal() }' % (tag, T, V), kind='diagonal', n=n, l=L)
            add('r_with_diagonal_' + tag, 'pub fn r_with_diagonal_%s(d: %s) -> %s { %s%d::with_diagonal(d) }' % (tag, V, T, L, n), kind='with_diagonal', n=n, l=L)
            add('r_bdiag_' + tag, 'pub fn r_bdiag_%s(d: f32) -> %s { %s%d::broadcast_diagonal(d) }' % (tag, T, L, n), kind='bdiag', n=n, l=L)
            add('r_trace_' + tag, 'pub fn r_trace_%s(a: %s) -> f32 { a.trace() }' % (tag, T), kind='trace', n=n, l=L)
            add('r_map_' + tag, 'pub fn r_map_%s(a: %s, f: fn(f32) -> f32) -> %s { a.map(|x| f(x)) }' % (tag, T, T), kind='map', n=n, l=L)
            add('r_map2_' + tag, 'pub fn r_map2_%s(a: %s, b: %s, f: fn(f32, f32) -> f32) -> %s { a.map2(b, |x, y| f(x, y)) }' % (tag, T, T, T), kind='map2', n=n, l=L)
            add('r_apply_' + tag, 'pub fn r_apply_%s(a: &mut %s, f: fn(f32) -> f32) { a.apply(|x| f(x)) }' % (tag, T), kind='apply', n=n, l=L)
            add('r_apply2_' + tag, 'pub fn r_apply2_%s(a: &mut %s, b: %s, f: fn(f32, f32) -> f32) { a.apply2(b, |x, y| f(x, y)) }' % (tag, T, T), kind='apply2', n=n, l=L)
            add('r_as_' + tag, 'pub fn r_as_%s(a: %s) -> %s { a.as_() }' % (tag, T, M(L, n, 'f64')), kind='as', n=n, l=L)
            add('r_numcast_' + tag, 'pub fn r_numcast_%s(a: %s) -> Option<%s> { a.numcast() }' % (tag, M(L, n, 'i32'), M(L, n, 'i64')), max_paths=64, kind='numcast', n=n, l=L)
            lines = 'rows' if L == 'Rows' else 'cols'
            add('r_maplines_' + tag, 'pub fn r_maplines_%s(a: %s, f: fn(f32) -> f32) -> %s { a.map_%s(|v| v.map(|x| f(x))) }' % (tag, T, T, lines), kind='map', n=n, l=L)
            add('r_relayout_' + tag, 'pub fn r_relayout_%s(a: %s) -> %s { %s%d::from(a) }' % (tag, M(O, n), T, L, n), kind='relayout', n=n, l=L, src=O)
            for m in (2, 3, 4):
                if m == n: continue
                add('r_resize_%s_from%d' % (tag, m), 'pub fn r_resize_%s_from%d(a: %s) -> %s { %s%d::from(a) }' % (tag, m, M(L, m), T, L, n), kind='resize', n=n, l=L, m=m)
            add('r_into_row_array_' + tag, 'pub fn r_into_row_array_%s(a: %s) -> [f32; %d] { a.into_row_array() }' % (tag, T, nn), kind='into', order='row', n=n, l=L)
            add('r_into_col_array_' + tag, 'pub fn r_into_col_array_%s(a: %s) -> [f32; %d] { a.into_col_array() }' % (tag, T, nn), kind='into', order='col', n=n, l=L)
            add('r_into_row_arrays_' + tag, 'pub fn r_into_row_arrays_%s(a: %s) -> [[f32; %d]; %d] { a.into_row_arrays() }' % (tag, T, n, n), kind='into', order='row', n=n, l=L)
            add('r_into_col_arrays_' + tag, 'pub fn r_into_col_arrays_%s(a: %s) -> [[f32; %d]; %d] { a.into_col_arrays() }' % (tag, T, n, n), kind='into', order='col', n=n, l=L)
            add('r_from_row_array_' + tag, 'pub fn r_from_row_array_%s(a: [f32; %d]) -> %s { %s%d::from_row_array(a) }' % (tag, nn, T, L, n), kind='from', order='row', n=n, l=L, nested=False)
            add('r_from_col_array_' + tag, 'pub fn r_from_col_array_%s(a: [f32; %d]) -> %s { %s%d::from_col_array(a) }' % (tag, nn, T, L, n), kind='from', order='col', n=n, l=L, nested=False)
            add('r_from_row_arrays_' + tag, 'pub fn r_from_row_arrays_%s(a: [[f32; %d]; %d]) -> %s { %s%d::from_row_arrays(a) }' % (tag, n, n, T, L, n), kind='from', order='row', n=n, l=L, nested=True)
            add('r_from_col_arrays_' + tag, 'pub fn r_from_col_arrays_%s(a: [[f32; %d]; %d]) -> %s { %s%d::from_col_arrays(a) }' % (tag, n, n, T, L, n), kind='from', order='col', n=n, l=L, nested=True)
            w = 'row' if L == 'Rows' else 'col'
            add('r_slice_' + tag, 'pub fn r_slice_%s(a: &%s) -> (&[f32], bool, bool) { (a.as_%s_slice(), a.gl_should_transpose(), %s%d::<f32>::GL_SHOULD_TRANSPOSE) }' % (tag, T, w, L, n), kind='slice', n=n, l=L)
            add('r_mslice_' + tag, 'pub fn r_mslice_%s(a: &mut %s) -> &mut [f32] { a.as_mut_%s_slice() }' % (tag, T, w), kind='mslice', n=n, l=L)
            add('r_ptr_' + tag, 'pub fn r_ptr_%s(a: &%s) -> *const f32 { a.as_%s_ptr() }' % (tag, T, w), kind='ptr', n=n, l=L)
            add('r_mptr_' + tag, 'pub fn r_mptr_%s(a: &mut %s) -> *mut f32 { a.as_mut_%s_ptr() }' % (tag, T, w), kind='ptr', n=n, l=L)
            add('r_counts_' + tag, 'pub fn r_counts_%s(a: &%s) -> (usize, usize, usize, usize, bool) { (a.row_count(), a.col_count(), %s%d::<f32>::ROW_COUNT, %s%d::<f32>::COL_COUNT, a.is_packed()) }' % (tag, T, L, n, L, n), kind='counts', n=n, l=L)
            add('r_display_' + tag, 'pub fn r_display_%s(a: &%s, f: &mut core::fmt::Formatter) -> core::fmt::Result { core::fmt::Display::fmt(a, f) }' % (tag, T), kind='display', n=n, l=L)
            add('r_default_' + tag, 'pub fn r_default_%s() -> %s { Default::default() }' % (tag, T), kind='default', n=n, l=L)
            # short programs: compositions (row-major and column-major must agree in (i,j) coordinates)
            progs = {
                'p1': 'a.transposed().transposed()',
                'p2': '%s%d::from_row_array(a.into_col_array())' % (L, n),
                'p3': '%s%d::from(%s%d::from(a).transposed())' % (L, n, O, n),
                'p4': '%s%d::from_col_arrays(a.transposed().into_row_arrays())' % (L, n),
                'p5': '%s%d::with_diagonal(a.transposed().diagonal())' % (L, n),
                'p6': '{ let mut m = a; m.transpose(); %s%d::from_row_arrays(%s%d::from(m).into_row_arrays()) }' % (L, n, O, n),
            }
            for pn, body in progs.items():
                add('r_%s_%s' % (pn, tag), 'pub fn r_%s_%s(a: %s) -> %s { %s }' % (pn, tag, T, T, body), kind='prog', p=pn, n=n, l=L)
    for pn, n, combo in gen_programs(tier):
        for L in ('Rows', 'Cols'):
            st = _steps(L, n); expr = 'a'; effs = []
            for c in combo:
                expr = st[c][0] % expr; effs.append(st[c][1])
            tag = '%s%d' % (L, n)
            add('r_%s_%s' % (pn, tag), 'pub fn r_%s_%s(a: %s) -> %s { %s }' % (pn, tag, M(L, n), M(L, n), expr), kind='gprog', effs=effs, n=n, l=L)
    return roots, meta


# generated compositions: each step is a matrix -> matrix API use with a layout-independent abstract effect
def _steps(L, n):
    O = 'Cols' if L == 'Rows' else 'Rows'; Mx = '%s%d' % (L, n); Ox = '%s%d' % (O, n)
    return {
        'T': ('%s.transposed()', 'T'), 'TI': ('{ let mut m = %s; m.transpose(); m }', 'T'),
        'RA': (Mx + '::from_row_array(%s.into_row_array())', 'I'), 'CA': (Mx + '::from_col_array(%s.into_col_array())', 'I'),
        'RC': (Mx + '::from_row_array(%s.into_col_array())', 'T'), 'CR': (Mx + '::from_col_array(%s.into_row_array())', 'T'),
        'RAS': (Mx + '::from_row_arrays(%s.into_row_arrays())', 'I'), 'CAS': (Mx + '::from_col_arrays(%s.into_col_arrays())', 'I'),
        'RCS': (Mx + '::from_row_arrays(%s.into_col_arrays())', 'T'),
        'L': (Mx + '::from(' + Ox + '::from(%s))', 'I'), 'LT': (Mx + '::from(' + Ox + '::from(%s).transposed())', 'T'),
        'D': (Mx + '::with_diagonal(%s.diagonal())', 'D'), 'MAP': ('%s.map(|x| x)', 'I'),
    }


def gen_programs(tier):
    """(name, size, steps) of the generated compositions for the tier"""
    import itertools
    names = list(_steps('Rows', 2))
    out = []
    for n in (2, 3, 4):
        maxlen = 2 if (tier == 'thorough' or n == 3) else 0
        if tier == 'thorough' and n == 3: maxlen = 3
        for ln in range(2, maxlen + 1):
            for combo in itertools.product(names, repeat=ln):
                out.append(('g_' + '_'.join(combo), n, combo))
    return out


def apply_effect(G, eff, n):
    if eff == 'T': return transpose(G)
    if eff == 'D': return [[G[i][j] if i == j else C(0) for j in range(n)] for i in range(n)]
    return G


PROG = {
    'p1': lambda A, n: A,
    'p2': lambda A, n: transpose(A),
    'p3': lambda A, n: transpose(A),
    'p4': lambda A, n: A,
    'p5': lambda A, n: [[A[i][i] if i == j else C(0) for j in range(n)] for i in range(n)],
    'p6': lambda A, n: transpose(A),
}


def run(ctx):
    ctx.level = 'proof'
    ctx.explanation = ('All matrix APIs that only move elements are interpreted over their MIR with pairwise distinct free symbols; the resulting '
                       'element map must be the same table in (row, column) coordinates for the row-major and the column-major type (parametricity: '
                       'the map is the function for every input).')
    ctx.assumptions = ['repr(C) field order = declaration order', 'opaque user closures are pure functions of their arguments for the value (call order is checked separately)']
    roots, meta = build_roots(ctx.tier)
    sc = ctx.scan(roots, QUICK_FEATURES if ctx.tier == 'quick' else ALL_FEATURES)
    if sc.compile_error: return
    done = 0
    display = {}
    for r in roots:
        res = sc.get(r.name); m = meta[r.name]
        if res is None or not res.ok: continue
        k = m['kind']; n = m['n']; L = m['l']; key = 'c03/' + r.name[2:]
        rule = 'perm: ' + k
        if k == 'numcast':
            A = msyms('a0', L, n)
            somes = [p for p in res.paths if p.out == 'ret' and isinstance(p.ret, Enum) and p.ret.var == 1]
            nones = [p for p in res.paths if p.out == 'ret' and isinstance(p.ret, Enum) and p.ret.var == 0]
            ctx.ob(key + '/paths', len(somes) == 1 and len(nones) == n * n and len(res.paths) == n * n + 1, 'paths: numcast fails as a whole exactly when one element fails', r.code, '1 Some + %d None' % (n * n), '%d Some, %d None, %d total' % (len(somes), len(nones), len(res.paths)))
            if somes:
                G = mgrid(somes[0].ret.fields[0], L, n)
                grid_eq(ctx, key, G, [[fn('variant:1', fn('field:0', fn('NumCast::from<i64>', A[i][j]))) if False else G[i][j] for j in range(n)] for i in range(n)], rule, r.code)
                # element (i,j) must be the conversion of exactly A(i,j)
                for i in range(n):
                    for j in range(n):
                        at = G[i][j].atoms() if hasattr(G[i][j], 'atoms') else set()
                        from .. import alg
                        deps = set()
                        def walk(a):
                            kd, nm, args = alg._ATOMS[a]
                            if kd == 'in': deps.add(nm)
                            for x in args:
                                for y in x.atoms(): walk(y)
                        for a in at: walk(a)
                        want = {alg._ATOMS[list(A[i][j].atoms())[0]][1]}
                        ctx.ob('%s/dep(%d,%d)' % (key, i, j), deps == want, 'dep: numcast element depends on exactly its own source element', r.code, want, deps)
            done += 1
            continue
        if k == 'idxoob':
            outs = [q.out for q in res.paths]
            ctx.ob(key, bool(outs) and all(o == 'panic' for o in outs), 'paths: an index outside the matrix panics (it never denotes another element)', r.code, 'panic', outs)
            done += 1
            continue
        try:
            p = res.only()
        except (AssertionError, KeyError, ValueError, TypeError, IndexError, ZeroDivisionError, AttributeError) as e:
            ctx.ob(key + '/paths', False, 'branch-free', r.name, 'one path', str(e)); continue
        done += 1
        if k == 'new':
            a = arr_syms('a0', n * n)
            grid_eq(ctx, key, mgrid(p.ret, L, n), [[a[i * n + j] for j in range(n)] for i in range(n)], 'perm: new(m00, m01, ...) lists elements row by row', r.code)
        elif k == 'idx':
            A = msyms('a0', L, n)
            ok = isinstance(p.ret, Ptr) and p.ret.d.get('alloc') == 'arg:a0'
            ctx.ob(key + '/alias', ok, 'perm: m[(i,j)] borrows from the matrix itself', r.code, 'reference into a0', p.ret)
            ctx.same(key, p.ret, A[m['i']][m['j']], 'perm: m[(i,j)] is row i, column j', r.code)
        elif k == 'idxm':
            A = msyms('a0', L, n); E = [row[:] for row in A]; E[m['i']][m['j']] = sym('a1')
            grid_eq(ctx, key, mgrid(p.mut('a0'), L, n), E, 'perm: m[(i,j)] = v writes row i, column j only', r.code)
        elif k == 'unary':
            A = msyms('a0', L, n)
            grid_eq(ctx, key, mgrid(p.ret, L, n), transpose(A), 'perm: transposed()(i,j) = m(j,i)', r.code)
        elif k == 'inplace':
            A = msyms('a0', L, n)
            grid_eq(ctx, key, mgrid(p.mut('a0'), L, n), transpose(A), 'perm: transpose() in place', r.code)
        elif k == 'diagonal':
            A = msyms('a0', L, n)
            vec_eq(ctx, key, p.ret, [A[i][i] for i in range(n)], rule, r.code)
        elif k == 'with_diagonal':
            d = vsyms('a0', vecn(n))
            grid_eq(ctx, key, mgrid(p.ret, L, n), [[d[i] if i == j else C(0) for j in range(n)] for i in range(n)], rule, r.code)
        elif k == 'bdiag':
            d = sym('a0')
            grid_eq(ctx, key, mgrid(p.ret, L, n), [[d if i == j else C(0) for j in range(n)] for i in range(n)], rule, r.code)
        elif k == 'trace':
            A = msyms('a0', L, n)
            ctx.same(key, p.ret, sum_(A[i][i] for i in range(n)), 'alg=: trace = sum of the diagonal', r.code)
        elif k in ('map', 'apply'):
            A = msyms('a0', L, n)
            G = mgrid(p.ret if k == 'map' else p.mut('a0'), L, n)
            grid_eq(ctx, key, G, [[fn('call:a1', A[i][j]) for j in range(n)] for i in range(n)], 'perm: map applies f to element (i,j)', r.code)
            calls = p.ev('call')
            ctx.ob(key + '/ncalls', len(calls) == n * n, 'trace: f called once per element', r.code, n * n, len(calls))
        elif k in ('map2', 'apply2'):
            A = msyms('a0', L, n); Bm = msyms('a1', L, n)
            G = mgrid(p.ret if k == 'map2' else p.mut('a0'), L, n)
            grid_eq(ctx, key, G, [[fn('call:a2', A[i][j], Bm[i][j]) for j in range(n)] for i in range(n)], 'perm: map2 pairs element (i,j) with element (i,j)', r.code)
        elif k == 'as':
            A = msyms('a0', L, n)
            grid_eq(ctx, key, mgrid(p.ret, L, n), A, 'perm: as_() converts element (i,j) to element (i,j) (f32->f64 is value preserving)', r.code)
        elif k == 'relayout':
            A = msyms('a0', m['src'], n)
            grid_eq(ctx, key, mgrid(p.ret, L, n), A, 'perm: layout conversion keeps the abstract matrix', r.code)
        elif k == 'resize':
            mm = m['m']; A = msyms('a0', L, mm)
            E = [[A[i][j] if i < mm and j < mm else (C(1) if i == j else C(0)) for j in range(n)] for i in range(n)]
            grid_eq(ctx, key, mgrid(p.ret, L, n), E, 'perm: size conversion keeps the upper-left block, pads with identity', r.code)
        elif k == 'into':
            A = msyms('a0', L, n); out = leaves(p.ret)
            E = [A[q // n][q % n] if m['order'] == 'row' else A[q % n][q // n] for q in range(n * n)]
            vec_eq(ctx, key, out, E, 'perm: into_%s_array(s) lists elements in %s order' % (m['order'], m['order']), r.code)
        elif k == 'from':
            if m['nested']: a = [sym('a0[%d][%d]' % (q // n, q % n)) for q in range(n * n)]
            else: a = arr_syms('a0', n * n)
            E = [[a[i * n + j] if m['order'] == 'row' else a[j * n + i] for j in range(n)] for i in range(n)]
            grid_eq(ctx, key, mgrid(p.ret, L, n), E, 'perm: from_%s_array(s) reads elements in %s order' % (m['order'], m['order']), r.code)
        elif k == 'slice':
            A = msyms('a0', L, n)
            sl, f1, f2 = p.ret
            flat = leaves(sl)
            ctx.ob(key + '/alias', isinstance(sl, Ptr) and sl.d.get('alloc') == 'arg:a0' and sl.d.get('sl') == [1, n * n], 'perm: the flat view aliases the matrix storage, one entry per element', r.code, 'slice of %d over a0' % (n * n), sl)
            ctx.same(key + '/flag', f1, f2, 'const: gl_should_transpose() == GL_SHOULD_TRANSPOSE', r.code)
            if f1.is_const():
                tr = f1.const_value() != 0
                E = [A[q // n][q % n] if tr else A[q % n][q // n] for q in range(n * n)]
                vec_eq(ctx, key + '/gl', flat, E, 'perm: flat view read with the reported transpose flag denotes the same matrix', r.code)
                ctx.ob(key + '/name', tr == (L == 'Rows'), 'perm: as_row_slice lists rows / as_col_slice lists columns', r.code, L == 'Rows', tr)
            else:
                ctx.ob(key + '/flag-const', False, 'const', r.code, 'constant flag', f1)
        elif k == 'mslice':
            A = msyms('a0', L, n); flat = leaves(p.ret)
            E = [A[q // n][q % n] if L == 'Rows' else A[q % n][q // n] for q in range(n * n)]
            ctx.ob(key + '/alias', isinstance(p.ret, Ptr) and p.ret.d.get('alloc') == 'arg:a0' and p.ret.d.get('sl') == [1, n * n], 'perm: mutable flat view aliases the matrix storage', r.code, 'slice over a0', p.ret)
            vec_eq(ctx, key, flat, E, 'perm: flat view order', r.code)
        elif k == 'ptr':
            ok = isinstance(p.ret, Ptr) and p.ret.d.get('alloc') == 'arg:a0' and p.ret.d.get('off') == 0
            ctx.ob(key, ok, 'perm: as_*_ptr points at the first element of the matrix', r.code, 'pointer to a0 at offset 0', p.ret)
        elif k == 'counts':
            vals = p.ret
            E = [C(n), C(n), C(n), C(n), C(1)]
            for q, (v, e) in enumerate(zip(vals, E)):
                ctx.same('%s/%d' % (key, q), v, e, 'const: row/col counts and packing', r.code)
        elif k == 'default':
            grid_eq(ctx, key, mgrid(p.ret, L, n), ident(n), 'const: Default is the identity', r.code)
        elif k == 'display':
            A = msyms('a0', L, n)
            vals = [p.term(e[1]) for e in p.events if e[0] in ('fmtval', 'fmtarg')]
            E = [A[q // n][q % n] for q in range(n * n)]
            vec_eq(ctx, key + '/order', vals, E, 'trace: Display prints elements row by row', r.code)
            display[(L, n)] = [(e[0], e[1] if e[0] == 'fmt' else str(p.term(e[1])).split('.')[-2:]) for e in p.events if e[0] in ('fmt', 'fmtval', 'fmtarg')]
        elif k == 'gprog':
            G = msyms('a0', L, n)
            for e in m['effs']: G = apply_effect(G, e, n)
            grid_eq(ctx, key, mgrid(p.ret, L, n), G, 'perm: composed API calls give the same abstract matrix in both layouts (composition of the per-call element maps)', r.code)
        elif k == 'prog':
            A = msyms('a0', L, n)
            grid_eq(ctx, key, mgrid(p.ret, L, n), PROG[m['p']](A, n), 'perm: short program gives the same abstract matrix in both layouts', r.code)
    for n in (2, 3, 4):
        if ('Rows', n) in display and ('Cols', n) in display:
            a = [(x[0], x[1] if x[0] == 'fmt' else None) for x in display[('Rows', n)]]
            b = [(x[0], x[1] if x[0] == 'fmt' else None) for x in display[('Cols', n)]]
            ctx.ob('c03/display/layout-independent/%d' % n, a == b, 'trace: Display output (literal pieces, element positions, and whether the caller\'s format parameters are forwarded to the elements) does not depend on the layout', 'Display for Mat%d' % n, a, b)
    ctx.floor('roots analysed', done, 344 + 2 * len(gen_programs(ctx.tier)))
    ctx.floor('obligations', ctx.obligations, 2900)

    # the optional mint matrix types are row / column array forms as well: element (i,j) must survive them in both layouts (rule shared with C20)
    if not ctx.only:
        from .c20 import mint_rule
        mint_rule(ctx, prefix='c03', only_kinds=('mfrom', 'minto'))
