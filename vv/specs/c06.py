"""C06 — determinants are the Leibniz expansion; the inverse functions really invert."""
from ..run import Root, leaves
from ..alg import C, sym, fn, named, Rat, atom_in
from ..sem import B, gt, fabs
from ..shapes import *
from ..rules import conj_leaves, feasible_paths, nonconst_conds

ID = 'C06'


def mty(l, n): return '%s%d<f32>' % (l, n)


AFF = 'Rows4::new(a[0],a[1],a[2],a[3], a[4],a[5],a[6],a[7], a[8],a[9],a[10],a[11], 0.,0.,0.,1.)'


def build_roots():
    roots = []; meta = {}

    def add(name, code, max_paths=64, **m):
        roots.append(Root(name, code, max_paths=max_paths)); meta[name] = m

    for n in (2, 3, 4):
        for L in ('Rows', 'Cols'):
            M = mty(L, n); tag = '%s%d' % (L, n); O = 'Cols' if L == 'Rows' else 'Rows'
            add('r_det_%s' % tag, 'pub fn r_det_%s(a: %s) -> f32 { a.determinant() }' % (tag, M), kind='det', n=n, l=L)
            add('r_dett_%s' % tag, 'pub fn r_dett_%s(a: %s) -> f32 { a.transposed().determinant() }' % (tag, M), kind='det', n=n, l=L)
            add('r_detl_%s' % tag, 'pub fn r_detl_%s(a: %s) -> f32 { %s%d::from(a).determinant() }' % (tag, M, O, n), kind='det', n=n, l=L)
            add('r_detmul_%s' % tag, 'pub fn r_detmul_%s(a: %s, b: %s) -> f32 { (a * b).determinant() }' % (tag, M, M), kind='detmul', n=n, l=L)
    for L in ('Rows', 'Cols'):
        M = mty(L, 4); tag = L
        add('r_inv_%s' % tag, 'pub fn r_inv_%s(a: %s) -> %s { a.inverted() }' % (tag, M, M), kind='inv', l=L)
        add('r_invip_%s' % tag, 'pub fn r_invip_%s(a: &mut %s) { a.invert() }' % (tag, M), kind='inv_ip', l=L)
        conv = '' if L == 'Rows' else 'let m = Cols4::from(m); '
        for f, ip in (('inverted_affine_transform_no_scale', 'invert_affine_transform_no_scale'), ('inverted_affine_transform', 'invert_affine_transform')):
            short = 'ns' if f.endswith('no_scale') else 'af'
            add('r_%s_%s' % (short, tag), 'pub fn r_%s_%s(a: [f32; 12]) -> %s { let m = %s; %slet r = m.%s(); r }' % (short, tag, M, AFF, conv, f), kind=short, l=L)
            add('r_%sip_%s' % (short, tag), 'pub fn r_%sip_%s(a: [f32; 12]) -> %s { let m = %s; %slet mut r = m; r.%s(); r }' % (short, tag, M, AFF, conv, ip), kind=short, l=L)
            add('r_%sgen_%s' % (short, tag), 'pub fn r_%sgen_%s(a: %s) -> %s { a.%s() }' % (short, tag, M, M, f), kind=short + 'gen', l=L)
    return roots, meta


def aff_syms():
    a = [sym('a0[%d]' % k) for k in range(12)]
    A = [[a[4 * i + j] for j in range(3)] for i in range(3)]
    t = [a[4 * i + 3] for i in range(3)]
    return a, A, t


def affine_matrix(A, t):
    return [[A[i][0], A[i][1], A[i][2], t[i]] for i in range(3)] + [[C(0), C(0), C(0), C(1)]]


def quat_rotation(w, x, y, z):
    """rational parametrisation of SO(3): Euler-Rodrigues matrix of the quaternion (w,x,y,z) divided by its squared norm"""
    n = w * w + x * x + y * y + z * z
    R = [[w * w + x * x - y * y - z * z, C(2) * (x * y - w * z), C(2) * (x * z + w * y)],
         [C(2) * (x * y + w * z), w * w - x * x + y * y - z * z, C(2) * (y * z - w * x)],
         [C(2) * (x * z - w * y), C(2) * (y * z + w * x), w * w - x * x - y * y + z * z]]
    return [[e / n for e in row] for row in R]


def subs_grid(G, mapping):
    return [[e.subs(mapping) for e in row] for row in G]


def run(ctx):
    ctx.level = 'proof'
    ctx.explanation = ('determinant (2x2,3x3,4x4, both layouts) is computed from the MIR as a polynomial and must equal the Leibniz sum; the general 4x4 inverse must satisfy '
                       'inv(M)(i,j) * det(M) = adj(M)(i,j) entrywise (rational identity in 16 symbols, hence a two-sided inverse wherever det != 0); the two fast inverses must equal '
                       'their closed forms [A^T | -A^T t] and [D^-1 A^T | -D^-1 A^T t] on affine inputs, with exactly the per-lane epsilon guards as branch conditions, and must invert '
                       'every rigid / translation*rotation*scale matrix under the rational (quaternion) parametrisation of rotations.')
    ctx.assumptions = ['f32 operations read as exact field operations', 'rotations are parametrised as Euler-Rodrigues(q)/|q|^2 for a free quaternion q (covers SO(3))']
    roots, meta = build_roots()
    sc = ctx.scan(roots, QUICK_FEATURES)
    if sc.compile_error: return
    done = 0
    for r in roots:
        rs = sc.get(r.name); m = meta[r.name]
        if rs is None or not rs.ok: continue
        done += 1
        k = m['kind']; key = 'c06/' + r.name[2:]; w = r.code
        try:
            if k == 'det':
                A = msyms('a0', m['l'], m['n'])
                ctx.same(key, rs.only().ret, det(A), 'alg=: determinant equals the Leibniz expansion (also after transposition / layout change)', w)
            elif k == 'detmul':
                A = msyms('a0', m['l'], m['n']); Bm = msyms('a1', m['l'], m['n'])
                ctx.same(key, rs.only().ret, det(A) * det(Bm), 'alg=: det(A*B) = det(A)*det(B)', w)
            elif k in ('inv', 'inv_ip'):
                A = msyms('a0', m['l'], 4)
                p = rs.only()
                G = mgrid(p.ret if k == 'inv' else p.mut('a0'), m['l'], 4)
                d = det(A); adj = adjugate(A)
                for i in range(4):
                    for j in range(4):
                        ok = False
                        try: ok = (G[i][j] * d == adj[i][j])
                        except Exception as e: G[i][j] = 'error %r' % e
                        ctx.ob('%s/(%d,%d)' % (key, i, j), ok, 'alg=: inverted(M)(i,j) * det(M) = adj(M)(i,j)  (so M*inv = inv*M = I whenever det != 0)', w, 'adj(%d,%d)/det' % (i, j), G[i][j])
            elif k in ('ns', 'af'):
                a, A, t = aff_syms()
                At = transpose(A)
                D = [sum_(A[i][kk] * A[i][kk] for i in range(3)) for kk in range(3)]
                eps = named('eps:f32')
                guards = [gt(fabs(D[kk]), eps) for kk in range(3)]
                if k == 'ns':
                    paths = [rs.only()]
                else:
                    paths = feasible_paths(rs)
                    ctx.ob(key + '/paths', len(paths) == 8, 'paths: one branch per scale lane (2^3 outcomes) on an affine input', w, 8, len(paths))
                seen = set()
                for p in paths:
                    if p.out != 'ret':
                        ctx.ob(key + '/returns', False, 'paths', w, 'returns', p.out); continue
                    conds = nonconst_conds(p)
                    sel = []
                    bad = []
                    if k == 'af':
                        for kk in range(3):
                            if any(c == guards[kk] for c in conds): sel.append(True)
                            elif any(c == guards[kk].neg() for c in conds): sel.append(False)
                            else: sel.append(None)
                        bad = [str(c) for c in conds if not any(c == g or c == g.neg() for g in guards)]
                        tag = ''.join('T' if s else 'F' for s in sel)
                        ctx.ob('%s/guards/%s' % (key, tag), None not in sel and not bad and tag not in seen, 'paths: branch conditions are exactly |sum_i A(i,k)^2| > epsilon per lane k', w, [str(g) for g in guards], [str(c) for c in conds])
                        seen.add(tag)
                        if None in sel: continue
                    else:
                        sel = [None] * 3; tag = ''
                    Dv = [(D[kk] if sel[kk] else C(1)) if k == 'af' else C(1) for kk in range(3)]
                    Ei = [[At[i][j] / Dv[i] for j in range(3)] for i in range(3)]
                    E = [[Ei[i][0], Ei[i][1], Ei[i][2], -sum_(Ei[i][j] * t[j] for j in range(3))] for i in range(3)] + [[C(0), C(0), C(0), C(1)]]
                    G = mgrid(p.ret, m['l'], 4)
                    grid_eq(ctx, key + '/closed-form' + ('/' + tag if tag else ''), G, E, 'alg=: fast inverse equals [D^-1 A^T | -D^-1 A^T t ; 0 0 0 1] (D = 1 for the no-scale form and on lanes below epsilon)', w)
                    if k == 'ns' or all(sel):
                        # substitute a rigid / TRS matrix: out * M = M * out = I as a rational identity
                        q = [sym('q.' + c) for c in 'wxyz']; s = [sym('s.' + c) for c in 'xyz']
                        R = quat_rotation(*q)
                        A2 = [[R[i][j] * (s[j] if k == 'af' else C(1)) for j in range(3)] for i in range(3)]
                        mapping = {}
                        for i in range(3):
                            for j in range(3):
                                mapping[atom_in('a0[%d]' % (4 * i + j))] = A2[i][j]
                        G2 = subs_grid(G, mapping)
                        M2 = affine_matrix(A2, t)
                        I4 = ident(4)
                        grid_eq(ctx, key + '/inverts-%s/left' % ('rigid' if k == 'ns' else 'TRS'), matmul(G2, M2), I4, 'alg=: inverse(M) * M = I for M = T(t) R(q)%s (rational parametrisation)' % (' S(s)' if k == 'af' else ''), w)
                        grid_eq(ctx, key + '/inverts-%s/right' % ('rigid' if k == 'ns' else 'TRS'), matmul(M2, G2), I4, 'alg=: M * inverse(M) = I for M = T(t) R(q)%s (rational parametrisation)' % (' S(s)' if k == 'af' else ''), w)
                        # agreement with the general inverse there: adj(M2)/det(M2) == G2
                        d2 = det(M2); adj2 = adjugate(M2)
                        ok = all(G2[i][j] * d2 == adj2[i][j] for i in range(4) for j in range(4))
                        ctx.ob(key + '/agrees-with-general-inverse', ok, 'alg=: fast inverse equals adj(M)/det(M) on rigid / TRS matrices', w)
            elif k in ('nsgen', 'afgen'):
                # general (non-affine) input: only sibling agreement between layouts is required (same abstract result)
                other = sc.get(r.name.replace('Rows', 'XX').replace('Cols', 'Rows').replace('XX', 'Cols'))
                if m['l'] == 'Rows' and other is not None and other.ok:
                    ctx.ob(key + '/paths', len(rs.paths) == len(other.paths), 'alg≡: row-major and column-major instantiation have the same decision tree', w, len(rs.paths), len(other.paths))
                    mapping = {}
                    A = msyms('a0', 'Rows', 4); Bc = msyms('a0', 'Cols', 4)
                    for i in range(4):
                        for j in range(4):
                            (mono, _), = Bc[i][j].num.t.items()
                            mapping[mono[0][0]] = A[i][j]
                    for pi, (p, po) in enumerate(zip(feasible_paths(rs), feasible_paths(other))):
                        if p.out != 'ret' or po.out != 'ret': continue
                        G = mgrid(p.ret, 'Rows', 4); Go = subs_grid(mgrid(po.ret, 'Cols', 4), mapping)
                        grid_eq(ctx, '%s/sibling/path%d' % (key, pi), G, Go, 'alg≡: row-major and column-major fast inverse agree in (i,j) coordinates', w)
        except (AssertionError, KeyError, ValueError, TypeError, IndexError, ZeroDivisionError, AttributeError) as e:
            ctx.ob(key + '/paths', False, 'path structure: the analysed function has the expected (branch-free / enumerated) shape', w, 'analysable', str(e))
    ctx.floor('roots analysed', done, len(roots))
    ctx.floor('obligations', ctx.obligations, 300)
