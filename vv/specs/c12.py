"""C12 — lerp is affine with exact endpoints; nlerp and slerp (shape); Transition accessors."""
from fractions import Fraction
from ..run import Root, leaves, Ptr, Enum
from ..alg import C, sym, fn, Rat, named, atom_in
from ..sem import B, lt, le, gt, ge
from ..shapes import *
from ..rules import cond_leaves, feasible_paths, nonconst_conds, region_views, view_paths
from ..ordeval import CB, mkenv
from .. import alg

ID = 'C12'
INTS = ['i8', 'i16', 'i32', 'i64', 'isize', 'u8', 'u16', 'u32', 'u64', 'usize']
QF = ['x', 'y', 'z', 'w']


def L(a, b, f): return a + f * (b - a)


def fsin(x): return C(0) if x.is_zero() else fn('sin', x)


def build_roots(kinds):
    roots = []; meta = {}

    def add(name, code, max_paths=64, opaque=(), **m):
        roots.append(Root(name, code, max_paths=max_paths, opaque=opaque)); meta[name] = m

    FORMS = [('lerp_unclamped', False), ('lerp_unclamped_precise', False), ('lerp', True), ('lerp_precise', True)]
    RFORMS = [('lerp_unclamped_inclusive_range', False), ('lerp_unclamped_precise_inclusive_range', False), ('lerp_inclusive_range', True), ('lerp_precise_inclusive_range', True)]
    for T in ('f32', 'f64'):
        for f, cl in FORMS:
            add('r_s_%s_%s' % (f, T), 'pub fn r_s_%s_%s(a: %s, b: %s, f: %s) -> %s { Lerp::%s(a, b, f) }' % (f, T, T, T, T, T, f), kind='scalar', clamped=cl, T=T)
            add('r_sr_%s_%s' % (f, T), 'pub fn r_sr_%s_%s(a: &%s, b: &%s, f: %s) -> %s { Lerp::%s(a, b, f) }' % (f, T, T, T, T, T, f), kind='scalar', clamped=cl, T=T)
        for f, cl in RFORMS:
            add('r_s_%s_%s' % (f, T), 'pub fn r_s_%s_%s(a: %s, b: %s, f: %s) -> %s { Lerp::%s(a..=b, f) }' % (f, T, T, T, T, T, f), kind='scalar', clamped=cl, T=T)
    for T in INTS:
        for F in ('f32', 'f64'):
            for f, cl in FORMS:
                add('r_i_%s_%s_%s' % (f, T, F), 'pub fn r_i_%s_%s_%s(a: %s, b: %s, f: %s) -> %s { Lerp::%s(a, b, f) }' % (f, T, F, T, T, F, T, f), kind='int', clamped=cl, T=T, F=F)
                add('r_ir_%s_%s_%s' % (f, T, F), 'pub fn r_ir_%s_%s_%s(a: &%s, b: &%s, f: %s) -> %s { Lerp::%s(a, b, f) }' % (f, T, F, T, T, F, T, f), kind='int', clamped=cl, T=T, F=F)
    for K in kinds:
        V = '%s<f32>' % K
        for f, cl in FORMS:
            add('r_vi_%s_%s' % (f, K), 'pub fn r_vi_%s_%s(a: %s, b: %s, f: f32) -> %s { %s::%s(a, b, f) }' % (f, K, V, V, V, K, f), kind='vec', clamped=cl, K=K, vf=False)
            add('r_vt_%s_%s' % (f, K), 'pub fn r_vt_%s_%s(a: %s, b: %s, f: f32) -> %s { Lerp::%s(a, b, f) }' % (f, K, V, V, V, f), kind='vec', clamped=cl, K=K, vf=False)
            add('r_vr_%s_%s' % (f, K), 'pub fn r_vr_%s_%s(a: &%s, b: &%s, f: f32) -> %s { Lerp::%s(a, b, f) }' % (f, K, V, V, V, f), kind='vec', clamped=cl, K=K, vf=False)
            if not cl:
                add('r_vv_%s_%s' % (f, K), 'pub fn r_vv_%s_%s(a: %s, b: %s, f: %s) -> %s { %s::%s(a, b, f) }' % (f, K, V, V, V, V, K, f), kind='vec', clamped=False, K=K, vf=True)
        add('r_vint_%s' % K, 'pub fn r_vint_%s(a: %s<u8>, b: %s<u8>, f: f32) -> %s<u8> { Lerp::lerp_unclamped(a, b, f) }' % (K, K, K, K), kind='vecint', K=K)
    Q = 'Quaternion<f32>'
    for f, cl in FORMS:
        add('r_q_%s' % f, 'pub fn r_q_%s(a: %s, b: %s, f: f32) -> %s { Lerp::%s(a, b, f) }' % (f, Q, Q, Q, f), kind='quat', clamped=cl)
        add('r_qr_%s' % f, 'pub fn r_qr_%s(a: &%s, b: &%s, f: f32) -> %s { Lerp::%s(a, b, f) }' % (f, Q, Q, Q, f), kind='quat', clamped=cl)
    for f, cl in (('lerp_unclamped_unnormalized', False), ('lerp_unclamped_precise_unnormalized', False), ('lerp_unnormalized', True), ('lerp_precise_unnormalized', True)):
        add('r_qu_%s' % f, 'pub fn r_qu_%s(a: %s, b: %s, f: f32) -> %s { Quaternion::%s(a, b, f) }' % (f, Q, Q, Q, f), kind='quatu', clamped=cl)
    add('r_qslerp_unclamped', 'pub fn r_qslerp_unclamped(a: %s, b: %s, f: f32) -> %s { Quaternion::slerp_unclamped(a, b, f) }' % (Q, Q, Q), kind='qslerp', clamped=False)
    add('r_qslerp64_unclamped', 'pub fn r_qslerp64_unclamped(a: Quaternion<f64>, b: Quaternion<f64>, f: f64) -> Quaternion<f64> { Quaternion::slerp_unclamped(a, b, f) }', kind='qslerp', clamped=False, ty='f64')
    add('r_qslerp_trait_unclamped', 'pub fn r_qslerp_trait_unclamped(a: %s, b: %s, f: f32) -> %s { Slerp::slerp_unclamped(a, b, f) }' % (Q, Q, Q), kind='qslerp', clamped=False)
    add('r_qslerp_ref_unclamped', 'pub fn r_qslerp_ref_unclamped(a: &%s, b: &%s, f: f32) -> %s { Slerp::slerp_unclamped(a, b, f) }' % (Q, Q, Q), kind='qslerp', clamped=False)
    add('r_qslerp', 'pub fn r_qslerp(a: %s, b: %s, f: f32) -> %s { Quaternion::slerp(a, b, f) }' % (Q, Q, Q), kind='qslerp', clamped=True)
    add('r_qslerp_trait', 'pub fn r_qslerp_trait(a: %s, b: %s, f: f32) -> %s { Slerp::slerp(a, b, f) }' % (Q, Q, Q), kind='qslerp', clamped=True)
    for K in ('Vec3',):
        V = '%s<f32>' % K
        add('r_vslerp_unclamped_' + K, 'pub fn r_vslerp_unclamped_%s(a: %s, b: %s, f: f32) -> %s { %s::slerp_unclamped(a, b, f) }' % (K, V, V, V, K), kind='vslerp', clamped=False, K=K, max_paths=64)
        add('r_vslerp_trait_unclamped_' + K, 'pub fn r_vslerp_trait_unclamped_%s(a: %s, b: %s, f: f32) -> %s { Slerp::slerp_unclamped(a, b, f) }' % (K, V, V, V), kind='vslerp', clamped=False, K=K, max_paths=64)
        add('r_vslerp_' + K, 'pub fn r_vslerp_%s(a: %s, b: %s, f: f32) -> %s { %s::slerp(a, b, f) }' % (K, V, V, V, K), kind='vslerp', clamped=True, K=K, max_paths=64)
    # Transform: the quaternion slerp is summarised
    TR = 'Transform<f32, f32, f32>'
    for f, cl in FORMS:
        add('r_xf_%s' % f, 'pub fn r_xf_%s(a: %s, b: %s, f: f32) -> %s { Lerp::%s(a, b, f) }' % (f, TR, TR, TR, f), opaque=['vek::Quaternion::<T>::slerp_unclamped', 'vek::quaternion::repr_c::Quaternion::<T>::slerp_unclamped', '*Quaternion*::slerp_unclamped'], kind='xf', clamped=cl)
        add('r_xfr_%s' % f, 'pub fn r_xfr_%s(a: &%s, b: &%s, f: f32) -> %s { Lerp::%s(a, b, f) }' % (f, TR, TR, TR, f), opaque=['*Quaternion*::slerp_unclamped'], kind='xf', clamped=cl)
    # Transition accessors
    ACC = [('into_current', 'lerp', True, False), ('into_current_unclamped', 'lerp_unclamped', False, False), ('into_current_precise', 'lerp_precise', True, False), ('into_current_unclamped_precise', 'lerp_unclamped_precise', False, False),
           ('current', 'lerp', True, True), ('current_unclamped', 'lerp_unclamped', False, True), ('current_precise', 'lerp_precise', True, True), ('current_unclamped_precise', 'lerp_unclamped_precise', False, True)]
    for acc, lf, cl, byref in ACC:
        for mp, MT in (('id', 'IdentityProgressMapper'), ('fn', 'ProgressMapperFn<f32>')):
            TT = 'Transition<f32, %s, f32>' % MT
            call = 't.%s()' % acc
            add('r_tr_%s_%s' % (acc, mp), 'pub fn r_tr_%s_%s(t: %s) -> f32 { %s }' % (acc, mp, TT, call), kind='trans', clamped=cl, mapper=mp, elem='f32')
            TV = 'Transition<Vec2<f32>, %s, f32>' % MT
            add('r_trv_%s_%s' % (acc, mp), 'pub fn r_trv_%s_%s(t: %s) -> Vec2<f32> { %s }' % (acc, mp, TV, call), kind='trans', clamped=cl, mapper=mp, elem='Vec2')
    add('r_tr_ctor', 'pub fn r_tr_ctor(a: f32, b: f32, p: f32) -> (Transition<f32, IdentityProgressMapper, f32>, Transition<f32, IdentityProgressMapper, f32>, core::ops::Range<f32>) { (Transition::with_mapper(a, b, IdentityProgressMapper), Transition::with_mapper_and_progress(a, b, IdentityProgressMapper, p), Transition::with_mapper_and_progress(a, b, IdentityProgressMapper, p).into_range()) }', kind='trctor')
    add('r_tr_lin_ctor', 'pub fn r_tr_lin_ctor(a: f32, b: f32, p: f32) -> (LinearTransition<f32, f32>, LinearTransition<f32, f32>, f32, f32) { (LinearTransition::new(a, b), LinearTransition::with_progress(a, b, p), LinearTransition::<f32, f32>::with_progress(a, b, p).into_current_unclamped(), LinearTransition::<f32, f32>::new(a, b).into_current_unclamped()) }', kind='trlin')
    # the default fn mapper is the identity; a mapper built from a fn pointer calls it
    add('r_tr_fnmapper', 'pub fn r_tr_fnmapper(a: f32, b: f32, p: f32, f: fn(f32) -> f32) -> (f32, f32) { (Transition::with_mapper_and_progress(a, b, ProgressMapperFn::<f32>::default(), p).into_current_unclamped(), Transition::with_mapper_and_progress(a, b, ProgressMapperFn::from(f), p).into_current_unclamped()) }', kind='trfn')
    add('r_tr_from_range', 'pub fn r_tr_from_range(a: f32, b: f32) -> Transition<f32, IdentityProgressMapper, f32> { Transition::from(a..b) }', kind='trrange')
    return roots, meta


# ------------------------------------------------------------------ clamped-factor rule
WIT = {'neg': [Fraction(-2), Fraction(-1, 3)], 'zero': [Fraction(0)], 'mid': [Fraction(1, 4), Fraction(2, 3)], 'one': [Fraction(1)], 'big': [Fraction(2), Fraction(7, 2)]}


def factor_regions(p, fac):
    """regions of the factor (relative to 0 and 1) in which the path's conditions on the factor hold"""
    out = []
    at = fac.atoms()
    if len(at) != 1: return None
    (a,) = at
    conds = [c for c in cond_leaves(p) if isinstance(c, B) and c.k != 'const' and c.atoms() <= {a}]
    for reg, ws in WIT.items():
        oks = []
        for wv in ws:
            env = {a: wv, '__fn__': None}
            oks.append(all(CB(c).ev(env) for c in conds))
        if all(oks): out.append(reg)
        elif any(oks): return None      # a condition splits an order region: not a comparison with 0/1
    return out


def clamped_rule(ctx, key, rs, fac, expected_of, rule, w, clamped, conv=lambda p: leaves(p.ret), other_conds_ok=lambda c: False):
    """every returning path's value equals expected_of(g) where g is the factor (unclamped forms) or the factor clamped to [0,1];
    a clamp written with branches and one written with min/max are treated alike (region views)"""
    paths = [p for p in feasible_paths(rs)]
    ok_all = True; covered = set(); n = 0
    for i, p in enumerate(paths):
        if p.out != 'ret':
            ok_all &= ctx.ob('%s/path%d' % (key, i), False, rule, w, 'returns', p.out + ': ' + str(p.panic)); continue
        if not clamped:
            exp = expected_of(fac); got = conv(p); n += 1
            ok_all &= ctx.ob('%s/path%d' % (key, i), len(exp) == len(got) and all(x == y for x, y in zip(got, exp)), rule, w, [str(e) for e in exp][:4], [str(x) for x in got][:4])
            continue
        views = region_views(p, fac)
        if not views:
            ok_all &= ctx.ob('%s/path%d/factor-regions' % (key, i), False, rule, w, 'conditions compare the factor with 0 and 1 only', [str(c) for c in p.conds]); continue
        for reg, g, fix in views:
            exp = [fix(e) for e in expected_of(g)]; got = [fix(x) for x in conv(p)]
            covered.add(reg); n += 1
            ok_all &= ctx.ob('%s/path%d/%s' % (key, i, reg), len(exp) == len(got) and all(x == y for x, y in zip(got, exp)), rule + ' [factor %s]' % reg, w, [str(e) for e in exp][:4], [str(x) for x in got][:4])
    if clamped: ctx.ob(key + '/covers', covered == {'below', 'at-lo', 'inside', 'at-hi', 'above'}, 'paths: the clamped form is defined on every order region of the factor relative to 0 and 1', w, 5, sorted(covered))
    else: ctx.ob(key + '/covers', n >= 1, 'paths', w, 1, n)
    return ok_all


def run(ctx):
    ctx.level = 'proof'
    ctx.explanation = ('Every Lerp/Slerp implementor is interpreted with free symbols. Unclamped forms must equal from + f*(to - from) as canonical polynomials (hence value `from` at 0, `to` at 1, affine, extrapolating, fast = precise); '
                       'clamped forms must equal the same expression with the factor replaced by 0 / f / 1 on exactly the paths factor<0 / inside / factor>1; integer impls must be cast(round(P)) with P the same polynomial over the '
                       'endpoints converted to the float type BEFORE any arithmetic; quaternion Lerp is the normalised component-wise lerp and has unit norm as a computed identity; quaternion slerp has exactly the outcomes '
                       '(negate `to` iff dot<0) x (linear fallback iff cos>1-eps | sine formula), with the endpoint values from(0)=from, (1)=+-to computed by substitution; Vec3 slerp has its documented shape; Transform lerp is '
                       '(lerp position, slerp orientation, lerp scale); the 8 Transition accessors equal the same-named Lerp function at the mapped progress.')
    ctx.assumptions = ['exact arithmetic (rounding excluded); f32::round is the primitive "ties away from zero" rounding', 'declined: unit length of slerp results, constant angular speed and shorter arc as computed facts (transcendental), exhaustive 8-bit sweeps']
    feats = ALL_FEATURES
    kinds = vec_kinds(feats) if ctx.tier == 'thorough' else ['Vec2', 'Vec3', 'Vec4', 'Extent2', 'Extent3', 'Rgb', 'Rgba', 'Uv', 'Uvw', 'Vec8']
    roots, meta = build_roots(kinds)
    sc = ctx.scan(roots, feats)
    if sc.compile_error: return
    done = 0
    for r in roots:
        rs = sc.get(r.name); m = meta[r.name]
        if rs is None or not rs.ok: continue
        done += 1
        k = m['kind']; key = 'c12/' + r.name[2:]; w = r.code; cl = m.get('clamped', False)
        f = sym('a2')
        try:
            if k == 'scalar':
                a, b = sym('a0'), sym('a1')
                clamped_rule(ctx, key, rs, f, lambda g: [L(a, b, g)], 'alg=: lerp = from + g*(to - from), g = factor%s' % (' clamped to [0,1]' if cl else ''), w, cl)
            elif k == 'int':
                T = m['T']; A = fn('tofloat', sym('a0')); Bv = fn('tofloat', sym('a1'))
                clamped_rule(ctx, key, rs, f, lambda g: [fn('toint:' + T, fn('round', L(A, Bv, g)))], 'alg=: integer lerp = cast(round(from + g*(to - from))) computed on the endpoints converted to the float type first (no integer arithmetic before conversion)', w, cl)
            elif k == 'vec':
                K = m['K']; A = vsyms('a0', K); Bv = vsyms('a1', K); N = vdim(K)
                if m['vf']:
                    Fv = vsyms('a2', K)
                    clamped_rule(ctx, key, rs, f, lambda g: [L(A[i], Bv[i], Fv[i]) for i in range(N)], 'alg=: per-element factor: out[i] = from[i] + f[i]*(to[i] - from[i])', w, False)
                else:
                    clamped_rule(ctx, key, rs, f, lambda g: [L(A[i], Bv[i], g) for i in range(N)], 'alg=: out[i] = from[i] + g*(to[i] - from[i])', w, cl)
            elif k == 'vecint':
                K = m['K']; A = vsyms('a0', K); Bv = vsyms('a1', K); N = vdim(K)
                clamped_rule(ctx, key, rs, f, lambda g: [fn('toint:u8', fn('round', L(fn('tofloat', A[i]), fn('tofloat', Bv[i]), g))) for i in range(N)], 'alg=: vector of integers lerps per element with the integer law', w, False)
            elif k in ('quat', 'quatu'):
                A = [sym('a0.' + c) for c in QF]; Bv = [sym('a1.' + c) for c in QF]
                def expq(g, norm=(k == 'quat')):
                    v = [L(A[i], Bv[i], g) for i in range(4)]
                    if not norm: return v
                    s = alg.sqrt(sum_(x * x for x in v))
                    return [x / s for x in v]
                clamped_rule(ctx, key, rs, f, expq, 'alg=: quaternion lerp = %scomponent-wise lerp' % ('normalised ' if k == 'quat' else ''), w, cl)
                if k == 'quat':
                    for i, p in enumerate(feasible_paths(rs)):
                        if p.out != 'ret': continue
                        q = leaves(p.ret)
                        ctx.same('%s/path%d/unit' % (key, i), sum_(x * x for x in q), C(1), 'alg=: the normalised lerp has unit norm (computed: sum of squares = 1)', w)
            elif k == 'qslerp':
                qslerp(ctx, key, rs, w, cl, m.get('ty', 'f32'))
            elif k == 'vslerp':
                vslerp(ctx, key, rs, w, cl, m['K'])
            elif k == 'xf':
                xform(ctx, key, rs, w, cl, r.name.startswith('r_xfr'))
            elif k == 'trans':
                trans(ctx, key, rs, w, cl, m)
            elif k == 'trctor':
                p = rs.only(); a, b, pr = sym('a0'), sym('a1'), sym('a2')
                got = leaves(p.ret)
                vec_eq(ctx, key, got, [a, b, C(0), a, b, pr, a, b], 'perm: with_mapper starts at progress 0; with_mapper_and_progress keeps the progress; into_range = start..end', w)
            elif k == 'trlin':
                p = rs.only(); a, b, pr = sym('a0'), sym('a1'), sym('a2')
                got = leaves(p.ret)
                vec_eq(ctx, key, got[:6], [a, b, C(0), a, b, pr], 'perm: LinearTransition::new starts at progress 0; with_progress keeps start, end and progress', w)
                ctx.same(key + '/current', got[6], a + (b - a) * pr, 'alg=: the current value of a linear transition is the interpolation at its progress', w)
                ctx.same(key + '/current-at-start', got[7], a, 'alg=: a new transition is at its start', w)
            elif k == 'trfn':
                p = rs.only(); a, b, pr = sym('a0'), sym('a1'), sym('a2')
                ctx.same(key + '/default-mapper', p.ret[0], a + (b - a) * pr, 'alg=: the default fn mapper is the identity: current value = interpolation at the progress', w)
                ctx.same(key + '/fn-mapper', p.ret[1], a + (b - a) * fn('call:a3', pr), 'alg=: a mapper built from a fn pointer maps the progress through it', w)
            elif k == 'trrange':
                p = rs.only()
                vec_eq(ctx, key, leaves(p.ret), [sym('a0'), sym('a1'), C(0)], 'perm: Transition::from(start..end) starts at progress 0', w)
        except (AssertionError, KeyError, ValueError, TypeError, IndexError, ZeroDivisionError, AttributeError) as e:
            ctx.ob(key + '/paths', False, 'path structure', w, 'analysable', str(e))
    ctx.floor('roots analysed', done, len(roots))
    ctx.floor('API uses generated (counted at implementation time)', len(roots), 399)
    ctx.floor('integer Lerp impls covered (10 types x 2 factor types x 4 forms x value/ref)', sum(1 for r in roots if meta[r.name]['kind'] == 'int'), 160)


def qslerp(ctx, key, rs, w, cl, ty='f32'):
    A = [sym('a0.' + c) for c in QF]; Bv = [sym('a1.' + c) for c in QF]; f = sym('a2')
    eps = named('eps:' + ty)
    d = dot(A, Bv)
    seen = set()
    for i, p in view_paths(rs, f, cl):
        i = i[4:]
        if p is None:
            ctx.ob('%s/path%s/factor' % (key, i), False, 'paths', w, 'factor compared with 0 and 1', 'a condition splits an order region of the factor'); continue
        if p.out != 'ret':
            ctx.ob('%s/path%s' % (key, i), False, 'paths', w, 'returns', p.out); continue
        conds = nonconst_conds(p)
        fconds = [c for c in conds if c.atoms() <= f.atoms()]
        oconds = [c for c in conds if not (c.atoms() <= f.atoms())]
        g = p.g
        if not cl:
            ctx.ob('%s/path%s/no-factor-branch' % (key, i), not fconds, 'paths: the unclamped form does not branch on the factor', w, [], [str(c) for c in fconds])
        flip = any(c == lt(d, C(0)) for c in oconds); noflip = any(c == ge(d, C(0)) for c in oconds)
        if flip == noflip:
            ctx.ob('%s/path%s/sign-decision' % (key, i), False, 'paths: `to` is negated exactly when dot(from, to) < 0 (shorter arc)', w, 'dot < 0 or dot >= 0', [str(c) for c in oconds]); continue
        sgn = C(-1) if flip else C(1)
        to = [sgn * x for x in Bv]; ct = sgn * d
        lin = any(c == gt(ct, C(1) - eps) for c in oconds); sph = any(c == le(ct, C(1) - eps) for c in oconds)
        if lin == sph:
            ctx.ob('%s/path%s/fallback-decision' % (key, i), False, 'paths: linear fallback exactly when cos(theta) > 1 - epsilon', w, 'cos > 1-eps or cos <= 1-eps', [str(c) for c in oconds]); continue
        extra = [c for c in oconds if not (c == lt(d, C(0)) or c == ge(d, C(0)) or c == gt(ct, C(1) - eps) or c == le(ct, C(1) - eps))]
        ctx.ob('%s/path%s/only-documented-decisions' % (key, i), not extra, 'paths: no other data-dependent decision', w, [], [str(c) for c in extra])
        seen.add((flip, lin) if not cl else (flip, lin, p.reg))
        got = leaves(p.ret)
        if lin:
            v = [L(A[j], to[j], g) for j in range(4)]; s = alg.sqrt(sum_(x * x for x in v))
            exp = [x / s for x in v]
        else:
            th = fn('acos', ct)
            exp = [(A[j] * fsin((C(1) - g) * th) + to[j] * fsin(g * th)) / fsin(th) for j in range(4)]
        ok = len(got) == 4 and all(x == y for x, y in zip(got, exp))
        ctx.ob('%s/path%s/value' % (key, i), ok, 'alg=: slerp = (from sin((1-g)theta) + to\' sin(g theta)) / sin(theta), theta = acos(from . to\'), to\' = +-to; nlerp on the fallback path', w, [str(e) for e in exp][:2], [str(x) for x in got][:2])
        if not cl and ok:
            # endpoints by substitution into the computed value
            at0 = [x.subs_deep({atom_in('a2'): C(0)}) for x in got]; at1 = [x.subs_deep({atom_in('a2'): C(1)}) for x in got]
            if lin:
                s0 = alg.sqrt(sum_(x * x for x in A)); s1 = alg.sqrt(sum_(x * x for x in to))
                ctx.ob('%s/path%s/at0' % (key, i), all(x == y / s0 for x, y in zip(at0, A)), 'alg=: value at factor 0 is from (normalised)', w, 'from/|from|', [str(x) for x in at0][:2])
                ctx.ob('%s/path%s/at1' % (key, i), all(x == y / s1 for x, y in zip(at1, to)), 'alg=: value at factor 1 is +-to (normalised)', w, 'to/|to|', [str(x) for x in at1][:2])
            else:
                ctx.ob('%s/path%s/at0' % (key, i), all(x == y for x, y in zip(at0, A)), 'alg=: value at factor 0 is from', w, [str(x) for x in A][:2], [str(x) for x in at0][:2])
                ctx.ob('%s/path%s/at1' % (key, i), all(x == y for x, y in zip(at1, to)), 'alg=: value at factor 1 is +-to (the sign that denotes the same rotation)', w, [str(x) for x in to][:2], [str(x) for x in at1][:2])
    want = 4 if not cl else 20
    ctx.ob(key + '/outcomes', len(seen) == want, 'paths: all (sign) x (fallback)%s outcomes exist' % (' x (factor region)' if cl else ''), w, want, len(seen))


def vslerp(ctx, key, rs, w, cl, K):
    A = vsyms('a0', K); Bv = vsyms('a1', K); f = sym('a2'); N = vdim(K)
    ma = alg.sqrt(sum_(x * x for x in A)); mb = alg.sqrt(sum_(x * x for x in Bv))
    ua = [x / ma for x in A]; ub = [x / mb for x in Bv]
    d = dot(ua, ub)
    n = 0
    for i, p in view_paths(rs, f, cl):
        i = i[4:]
        if p is None:
            ctx.ob('%s/path%s/factor' % (key, i), False, 'paths', w, 'factor compared with 0 and 1', 'a condition splits an order region of the factor'); continue
        if p.out != 'ret':
            ctx.ob('%s/path%s' % (key, i), False, 'paths', w, 'returns', p.out); continue
        conds = nonconst_conds(p)
        fconds = [c for c in conds if c.atoms() <= f.atoms()]
        g = p.g
        if not cl:
            ctx.ob('%s/path%s/no-factor-branch' % (key, i), not fconds, 'paths: the unclamped form does not branch on the factor (lengths extrapolate linearly)', w, [], [str(c) for c in fconds])
        # cos clamped to [-1,1]: three regions decided by the path
        oconds = [c for c in conds if not (c.atoms() <= f.atoms())]
        # the clamp of the cosine may be written with branches (three regions decided by the path) or with min/max (one expression)
        from ..sem import minmax
        if any(c == lt(d, C(-1)) for c in oconds): cands = [C(-1)]
        elif any(c == gt(d, C(1)) for c in oconds): cands = [C(1)]
        elif any(c == ge(d, C(-1)) for c in oconds) and any(c == le(d, C(1)) for c in oconds): cands = [d]
        else: cands = [minmax('min', minmax('max', d, C(-1)), C(1))]
        got = leaves(p.ret)
        ok = False
        for ca in cands:
            al = fn('acos', ca); sa = fsin(al)
            t1 = fsin((C(1) - g) * al) / sa; t2 = fsin(g * al) / sa
            mag = L(ma, mb, g)
            exp = [p.fix(e) for e in [(ua[j] * t1 + ub[j] * t2) * mag for j in range(N)]]
            ok = ok or (len(got) == N and all(x == y for x, y in zip(got, exp)))
        n += 1
        ctx.ob('%s/path%s/value' % (key, i), ok, 'alg=: vector slerp = (from^ sin((1-g)a) + to^ sin(g a))/sin(a) * lerp(|from|, |to|, g), a = acos(clamp(from^ . to^))', w, [str(e) for e in exp][:1], [str(x) for x in got][:1])
    ctx.ob(key + '/covers', n >= 1, 'paths', w, '>=1', n)


def xform(ctx, key, rs, w, cl, byref):
    f = sym('a2')
    P0 = [sym('a0.position.' + c) for c in 'xyz']; P1 = [sym('a1.position.' + c) for c in 'xyz']
    S0 = [sym('a0.scale.' + c) for c in 'xyz']; S1 = [sym('a1.scale.' + c) for c in 'xyz']
    O0 = [sym('a0.orientation.' + c) for c in QF]; O1 = [sym('a1.orientation.' + c) for c in QF]
    for i, p in view_paths(rs, f, cl):
        i = i[4:]
        if p is None:
            ctx.ob('%s/path%s/factor' % (key, i), False, 'paths', w, 'factor compared with 0 and 1', 'a condition splits an order region of the factor'); continue
        if p.out != 'ret':
            ctx.ob('%s/path%s' % (key, i), False, 'paths', w, 'returns', p.out); continue
        g = p.g
        got = leaves(p.ret)
        calls = p.ev('call')
        okc = len(calls) == 1 and 'slerp_unclamped' in calls[0][1]
        ctx.ob('%s/path%s/orientation-by-slerp' % (key, i), okc, 'deleg: the orientation is interpolated by the quaternion slerp_unclamped, once', w, 'one slerp_unclamped call', [c[1] for c in calls])
        if not okc: continue
        args = [p.term(t) for t in calls[0][2]]
        exp_args = O0 + O1 + [g]
        ctx.ob('%s/path%s/slerp-args' % (key, i), len(args) == 9 and all(x == y for x, y in zip(args, exp_args)), 'deleg: slerp_unclamped(a.orientation, b.orientation, factor)', w, [str(x) for x in exp_args], [str(x) for x in args])
        name = calls[0][1]
        call = fn('call:' + name, *exp_args)
        expo = [fn('ret:%d' % j, call) for j in range(4)]
        exp = [L(P0[j], P1[j], g) for j in range(3)] + expo + [L(S0[j], S1[j], g) for j in range(3)]
        ok = len(got) == 10 and all(x == y for x, y in zip(got, exp))
        ctx.ob('%s/path%s/value' % (key, i), ok, 'alg=: Transform lerp = (lerp position, slerp orientation, lerp scale)', w, [str(e) for e in exp][:4], [str(x) for x in got][:4])


def trans(ctx, key, rs, w, cl, m):
    pr = sym('a0.progress')
    if m['mapper'] == 'fn': mapped = fn('call:a0.progress_mapper.0', pr)
    else: mapped = pr
    if m['elem'] == 'f32':
        a = [sym('a0.start')]; b = [sym('a0.end')]
    else:
        a = [sym('a0.start.x'), sym('a0.start.y')]; b = [sym('a0.end.x'), sym('a0.end.y')]
    n = 0
    for i, p in view_paths(rs, mapped, cl):
        i = i[4:]
        if p is None:
            ctx.ob('%s/path%s/factor' % (key, i), False, 'paths', w, 'mapped progress compared with 0 and 1', 'a condition splits an order region of the mapped progress'); continue
        if p.out != 'ret':
            ctx.ob('%s/path%s' % (key, i), False, 'paths', w, 'returns', p.out); continue
        g = p.g
        if m['mapper'] == 'fn':
            calls = p.ev('call')
            ctx.ob('%s/path%s/maps-progress' % (key, i), len(calls) >= 1 and all(c[1] == 'a0.progress_mapper.0' and [p.term(t) for t in c[2]] == [pr] for c in calls), 'deleg: the progress mapper is applied to the progress', w, 'mapper(progress)', [(c[1], [str(p.term(t)) for t in c[2]]) for c in calls])
        got = leaves(p.ret); exp = [L(a[j], b[j], g) for j in range(len(a))]
        n += 1
        ctx.ob('%s/path%s/value' % (key, i), len(got) == len(exp) and all(x == y for x, y in zip(got, exp)), 'alg=: the accessor is the same-named Lerp function on (start, end, mapped progress%s)' % (' clamped to [0,1]' if cl else ''), w, [str(e) for e in exp], [str(x) for x in got])
    ctx.ob(key + '/covers', n >= (5 if cl else 1), 'paths', w, 5 if cl else 1, n)
