"""C20 — numeric lifts, casts, approx equality are per-element; all feature sets build."""
from ..run import Root, leaves, Ptr, Enum
from fractions import Fraction
from .. import alg
from ..alg import C, sym, fn
from ..sem import B, eq, as_bool, as_rat
from ..shapes import *
from .. import featmat

ID = 'C20'


from ..rules import *


BIN_CHECKED = [('CheckedAdd', 'checked_add'), ('CheckedSub', 'checked_sub'), ('CheckedMul', 'checked_mul'), ('CheckedDiv', 'checked_div'), ('CheckedRem', 'checked_rem'), ('CheckedEuclid', 'checked_div_euclid'), ('CheckedEuclid', 'checked_rem_euclid')]
BIN_PLAIN = [('WrappingAdd', 'wrapping_add'), ('WrappingSub', 'wrapping_sub'), ('WrappingMul', 'wrapping_mul'), ('SaturatingAdd', 'saturating_add'), ('SaturatingSub', 'saturating_sub'), ('SaturatingMul', 'saturating_mul'), ('Euclid', 'div_euclid'), ('Euclid', 'rem_euclid')]
BIN_OVF = [('OverflowingAdd', 'overflowing_add'), ('OverflowingSub', 'overflowing_sub'), ('OverflowingMul', 'overflowing_mul')]
APPROX = [('AbsDiffEq', 'abs_diff_eq', 1), ('RelativeEq', 'relative_eq', 2), ('UlpsEq', 'ulps_eq', 2)]


def build_roots(kinds):
    roots = []; meta = {}

    def add(name, code, max_paths=80, **m):
        roots.append(Root(name, code, max_paths=max_paths)); meta[name] = m

    for K in kinds:
        VI = '%s<i32>' % K; VF = '%s<f32>' % K
        for tr, f in BIN_CHECKED:
            add('r_%s_%s' % (f, K), 'pub fn r_%s_%s(a: %s, b: %s) -> Option<%s> { num_traits::%s::%s(&a, &b) }' % (f, K, VI, VI, VI, tr, f), kind='checked', tr=tr, f=f, K=K)
        add('r_checked_neg_%s' % K, 'pub fn r_checked_neg_%s(a: %s) -> Option<%s> { num_traits::CheckedNeg::checked_neg(&a) }' % (K, VI, VI), kind='checked1', tr='CheckedNeg', f='checked_neg', K=K)
        for tr, f in BIN_PLAIN:
            add('r_%s_%s' % (f, K), 'pub fn r_%s_%s(a: %s, b: %s) -> %s { num_traits::%s::%s(&a, &b) }' % (f, K, VI, VI, VI, tr, f), kind='plain', tr=tr, f=f, K=K)
        add('r_wrapping_neg_%s' % K, 'pub fn r_wrapping_neg_%s(a: %s) -> %s { num_traits::WrappingNeg::wrapping_neg(&a) }' % (K, VI, VI), kind='plain1', tr='WrappingNeg', f='wrapping_neg', K=K)
        for tr, f in BIN_OVF:
            add('r_%s_%s' % (f, K), 'pub fn r_%s_%s(a: %s, b: %s) -> (%s, bool) { num_traits::ops::overflowing::%s::%s(&a, &b) }' % (f, K, VI, VI, VI, tr, f), kind='ovf', tr=tr, f=f, K=K)
        add('r_inv_%s' % K, 'pub fn r_inv_%s(a: %s) -> %s { num_traits::Inv::inv(a) }' % (K, VF, VF), kind='inv', K=K)
        add('r_zero_%s' % K, 'pub fn r_zero_%s() -> %s { num_traits::Zero::zero() }' % (K, VI), kind='const', c=0, K=K)
        add('r_one_%s' % K, 'pub fn r_one_%s() -> %s { num_traits::One::one() }' % (K, VI), kind='const', c=1, K=K)
        add('r_is_zero_%s' % K, 'pub fn r_is_zero_%s(a: %s) -> bool { num_traits::Zero::is_zero(&a) }' % (K, VI), kind='is_zero', K=K)
        # the in-place forms (provided methods of Zero / One unless a type overrides them): the previous contents must not survive
        add('r_set_zero_%s' % K, 'pub fn r_set_zero_%s(a: %s) -> %s { let mut v = a; num_traits::Zero::set_zero(&mut v); v }' % (K, VI, VI), kind='const', c=0, K=K)
        add('r_set_one_%s' % K, 'pub fn r_set_one_%s(a: %s) -> %s { let mut v = a; num_traits::One::set_one(&mut v); v }' % (K, VI, VI), kind='const', c=1, K=K)
        add('r_as_%s' % K, 'pub fn r_as_%s(a: %s) -> %s<f64> { a.as_() }' % (K, VI, K), kind='as', K=K)
        add('r_numcast_%s' % K, 'pub fn r_numcast_%s(a: %s) -> Option<%s<u8>> { a.numcast() }' % (K, VI, K), kind='numcast', K=K)
        for tr, f, ne in APPROX:
            extra = ', e: f32' if ne == 1 else (', e: f32, m: f32' if f == 'relative_eq' else ', e: f32, m: u32')
            call = 'e' if ne == 1 else 'e, m'
            add('r_%s_%s' % (f, K), 'pub fn r_%s_%s(a: %s, b: %s%s) -> bool { approx::%s::%s(&a, &b, %s) }' % (f, K, VF, VF, extra, tr, f, call), kind='approx', tr=tr, f=f, K=K)
        add('r_defeps_%s' % K, 'pub fn r_defeps_%s() -> (f32, f32, u32) { (<%s as approx::AbsDiffEq>::default_epsilon(), <%s as approx::RelativeEq>::default_max_relative(), <%s as approx::UlpsEq>::default_max_ulps()) }' % (K, VF, VF, VF), kind='defeps', K=K)
    # matrices and quaternion: approx lifts
    for L in ('Rows', 'Cols'):
        for n in (2, 3, 4):
            T = '%s%d<f32>' % (L, n); tag = '%s%d' % (L, n)
            for tr, f, ne in APPROX:
                extra = ', e: f32' if ne == 1 else (', e: f32, m: f32' if f == 'relative_eq' else ', e: f32, m: u32')
                call = 'e' if ne == 1 else 'e, m'
                add('r_%s_%s' % (f, tag), 'pub fn r_%s_%s(a: %s, b: %s%s) -> bool { approx::%s::%s(&a, &b, %s) }' % (f, tag, T, T, extra, tr, f, call), max_paths=600, kind='approx_mat', tr=tr, f=f, n=n, l=L)
    for L in ('Rows', 'Cols'):
        for n in (2, 3, 4):
            tag = '%s%d' % (L, n)
            add('r_mas_%s' % tag, 'pub fn r_mas_%s(a: %s%d<i32>) -> %s%d<f64> { a.as_() }' % (tag, L, n, L, n), kind='mat_as', n=n, l=L)
            add('r_mnumcast_%s' % tag, 'pub fn r_mnumcast_%s(a: %s%d<i32>) -> Option<%s%d<u8>> { a.numcast() }' % (tag, L, n, L, n), kind='mat_numcast', n=n, l=L)
    # matrices: Zero / One / is_zero, default tolerances; quaternion: default tolerances
    for L in ('Rows', 'Cols'):
        for n in (2, 3, 4):
            tag = '%s%d' % (L, n); MI = '%s%d<i32>' % (L, n); MF = '%s%d<f32>' % (L, n)
            add('r_mzero_%s' % tag, 'pub fn r_mzero_%s() -> %s { num_traits::Zero::zero() }' % (tag, MI), kind='mconst', c='zero', n=n, l=L)
            add('r_mone_%s' % tag, 'pub fn r_mone_%s() -> %s { num_traits::One::one() }' % (tag, MI), kind='mconst', c='one', n=n, l=L)
            add('r_mis_zero_%s' % tag, 'pub fn r_mis_zero_%s(a: %s) -> bool { num_traits::Zero::is_zero(&a) }' % (tag, MI), kind='mis_zero', n=n, l=L, max_paths=400)
            add('r_mset_zero_%s' % tag, 'pub fn r_mset_zero_%s(a: %s) -> %s { let mut m = a; num_traits::Zero::set_zero(&mut m); m }' % (tag, MI, MI), kind='mconst', c='zero', n=n, l=L)
            add('r_mset_one_%s' % tag, 'pub fn r_mset_one_%s(a: %s) -> %s { let mut m = a; num_traits::One::set_one(&mut m); m }' % (tag, MI, MI), kind='mconst', c='one', n=n, l=L)
            add('r_mis_one_%s' % tag, 'pub fn r_mis_one_%s(a: %s) -> bool { num_traits::One::is_one(&a) }' % (tag, MI), kind='mis_one', n=n, l=L, max_paths=400)
            add('r_mdefeps_%s' % tag, 'pub fn r_mdefeps_%s() -> (f32, f32, u32) { (<%s as approx::AbsDiffEq>::default_epsilon(), <%s as approx::RelativeEq>::default_max_relative(), <%s as approx::UlpsEq>::default_max_ulps()) }' % (tag, MF, MF, MF), kind='defeps')
    add('r_qdefeps', 'pub fn r_qdefeps() -> (f32, f32, u32) { (<Quaternion<f32> as approx::AbsDiffEq>::default_epsilon(), <Quaternion<f32> as approx::RelativeEq>::default_max_relative(), <Quaternion<f32> as approx::UlpsEq>::default_max_ulps()) }', kind='defeps')
    for tr, f, ne in APPROX:
        extra = ', e: f32' if ne == 1 else (', e: f32, m: f32' if f == 'relative_eq' else ', e: f32, m: u32')
        call = 'e' if ne == 1 else 'e, m'
        add('r_%s_quat' % f, 'pub fn r_%s_quat(a: Quaternion<f32>, b: Quaternion<f32>%s) -> bool { approx::%s::%s(&a, &b, %s) }' % (f, extra, tr, f, call), kind='approx_quat', tr=tr, f=f)
    # shapes: element casts
    for S, flds in (('Rect', ['x', 'y', 'w', 'h']), ('Rect3', ['x', 'y', 'z', 'w', 'h', 'd']), ('Aabr', ['min.x', 'min.y', 'max.x', 'max.y']), ('Aabb', ['min.x', 'min.y', 'min.z', 'max.x', 'max.y', 'max.z'])):
        if S in ('Rect', 'Rect3'):
            add('r_as_%s' % S, 'pub fn r_as_%s(a: %s<i32, i32>) -> %s<f64, f64> { a.as_() }' % (S, S, S), kind='as_shape', S=S, flds=flds)
        else:
            add('r_as_%s' % S, 'pub fn r_as_%s(a: %s<i32>) -> %s<f64> { a.as_() }' % (S, S, S), kind='as_shape', S=S, flds=flds)
    return roots, meta


def ext_atom(tr, f, ty, *args):
    return fn('%s::%s<%s>' % (tr, f, ty), *args)


def run(ctx):
    ctx.level = 'proof'
    ctx.explanation = ('(1) build: every feature configuration of the tier type-checks on the stable toolchain (cargo check of /repo\'s working tree); '
                       '(2) lifts: every lifted numeric / cast / approx operation is interpreted over its MIR; its decision tree must be "success iff every element predicate holds" '
                       'and element i of the value must be the scalar operation on (a[i], b[i]).')
    ctx.assumptions = ['scalar operations of num-traits / approx / az on primitives are opaque functions (their own correctness is outside the crate)']
    # ---- 1. build matrix
    import os
    res = featmat.run_matrix(ctx.tier) if not os.environ.get('VV_SKIP_BUILD') else []
    for feats, ok, err in res:
        ctx.ob('c20/build/' + feats.replace(' ', '+'), ok, 'build: configuration type-checks on stable', (err or {}).get('where', ''), 'cargo +stable check --no-default-features --features "%s" succeeds' % feats, (err or {}).get('msg'))
    if not os.environ.get('VV_SKIP_BUILD'): ctx.floor('feature configurations checked', len(res), 52 if ctx.tier == 'quick' else 212)
    ctx.counts['feature_configurations'] = len(res)
    # ---- 1b. a feature only adds items: every body of the base configuration exists unchanged (normalised MIR) in the extended one
    if not os.environ.get('VV_SKIP_BUILD') and not ctx.only:
        fps = featmat.run_fingerprints(ctx.tier)
        bodies = 0
        for base, ext, missing, changed, nb, ne, err in fps:
            tag = base + '+' + ('+'.join(ext) if len(ext) < 4 else 'all')
            if err is not None:
                ctx.ob('c20/adds-only/%s/analysable' % tag, False, 'local: fingerprint comparison needs both configurations to compile under the analysing toolchain', tag, 'compiles', err[-300:]); continue
            bodies += nb
            ctx.ob('c20/adds-only/%s/no-item-removed' % tag, not missing, 'local fingerprint: enabling a feature removes no function body of the base configuration', tag, 'every base item present (%d)' % nb, missing[:5])
            ctx.ob('c20/adds-only/%s/no-body-changed' % tag, not changed, 'local fingerprint: enabling a feature leaves the MIR of every function body of the base configuration unchanged (so it cannot change their behaviour)', tag, 'all %d base bodies identical; %d bodies in the extended configuration' % (nb, ne), changed[:5])
        ctx.floor('configuration pairs fingerprinted', len(fps), 14 if ctx.tier == 'quick' else 28)
        ctx.floor('function bodies compared', bodies, 40000)
    # ---- 2. lifts
    feats = QUICK_FEATURES if ctx.tier == 'quick' else ALL_FEATURES
    kinds = vec_kinds(feats)
    roots, meta = build_roots(kinds)
    sc = ctx.scan(roots, feats)
    if sc.compile_error: return
    done = 0
    for r in roots:
        rs = sc.get(r.name); m = meta[r.name]
        if rs is None or not rs.ok: continue
        done += 1
        k = m['kind']; key = 'c20/' + r.name[2:]; w = r.code
        try:
            if k in ('checked', 'checked1'):
                K = m['K']; a = vsyms('a0', K); b = vsyms('a1', K) if k == 'checked' else None
                n = len(a)
                rr = [ext_atom(m['tr'], m['f'], 'i32', *( (a[i], b[i]) if b else (a[i],) )) for i in range(n)]
                preds = [opt_pred(x) for x in rr]
                all_or_none(ctx, key, rs, preds, 'paths: checked lift is None exactly when some element is None', w, lambda p: isinstance(p.ret, Enum) and p.ret.var == 1)
                for p in rs.paths:
                    if p.out == 'ret' and isinstance(p.ret, Enum) and p.ret.var == 1:
                        vec_eq(ctx, key + '/value', p.ret.fields[0], [opt_payload(x) for x in rr], 'alg=: element i is the unwrapped scalar result on (a[i], b[i])', w)
            elif k in ('plain', 'plain1'):
                K = m['K']; a = vsyms('a0', K); b = vsyms('a1', K) if k == 'plain' else None
                p = rs.only()
                vec_eq(ctx, key, p.ret, [ext_atom(m['tr'], m['f'], 'i32', *((a[i], b[i]) if b else (a[i],))) for i in range(len(a))], 'alg=: lifted operation is the scalar operation per element', w)
            elif k == 'ovf':
                K = m['K']; a = vsyms('a0', K); b = vsyms('a1', K); p = rs.only()
                rr = [ext_atom(m['tr'], m['f'], 'i32', a[i], b[i]) for i in range(len(a))]
                val, flag = p.ret
                vec_eq(ctx, key + '/value', val, [fn('ret:0', x) for x in rr], 'alg=: wrapped value per element', w)
                want = [as_bool(fn('ret:1', x)) for x in rr]
                got = [g for g in conj_leaves(flag, 'or') if not (isinstance(g, B) and g.k == 'const' and g.a[0] is False)] if isinstance(flag, B) else [flag]
                ok = len(got) == len(want) and all(any(g == x for g in got) for x in want) and all(any(g == x for x in want) for g in got)
                ctx.ob(key + '/flag', ok, 'alg=: overflow flag is the OR of the per-element flags', w, [str(x) for x in want][:4], str(flag)[:300])
            elif k == 'inv':
                K = m['K']; a = vsyms('a0', K); p = rs.only()
                vec_eq(ctx, key, p.ret, [C(1) / x for x in a], 'alg=: reciprocal per element', w)
            elif k == 'const':
                p = rs.only()
                vec_eq(ctx, key, p.ret, [C(m['c'])] * vdim(m['K']), 'const: Zero/One', w)
            elif k == 'mconst':
                n = m['n']; p = rs.only()
                E = [[C(0 if m['c'] == 'zero' or i != j else 1) for j in range(n)] for i in range(n)]
                grid_eq(ctx, key, mgrid(p.ret, m['l'], n), E, 'const: matrix Zero is all zeros, One is the identity', w)
            elif k == 'mis_zero':
                n = m['n']; Mx = msyms('a0', m['l'], n)
                preds = [eq(Mx[i][j], C(0)) for i in range(n) for j in range(n)]
                all_or_none(ctx, key, rs, preds, 'paths: matrix is_zero iff all elements are zero', w, lambda p: truth(p.ret))
            elif k == 'mis_one':
                n = m['n']; Mx = msyms('a0', m['l'], n)
                preds = [eq(Mx[i][j], C(1 if i == j else 0)) for i in range(n) for j in range(n)]
                all_or_none(ctx, key, rs, preds, 'paths: matrix is_one iff it is the identity', w, lambda p: truth(p.ret))
            elif k == 'is_zero':
                a = vsyms('a0', m['K'])
                preds = [eq(x, C(0)) for x in a]
                all_or_none(ctx, key, rs, preds, 'paths: is_zero iff all elements are zero', w, lambda p: truth(p.ret))
            elif k == 'as':
                a = vsyms('a0', m['K']); p = rs.only()
                vec_eq(ctx, key, p.ret, [fn('tofloat', x) for x in a], 'alg=: as_ converts each element by the scalar rule', w)
            elif k == 'numcast':
                a = vsyms('a0', m['K'])
                rr = [fn('numcast:u8', x) for x in a]
                preds = [opt_pred(x) for x in rr]
                all_or_none(ctx, key, rs, preds, 'paths: numcast is None exactly when some element fails', w, lambda p: isinstance(p.ret, Enum) and p.ret.var == 1)
                for p in rs.paths:
                    if p.out == 'ret' and isinstance(p.ret, Enum) and p.ret.var == 1:
                        vec_eq(ctx, key + '/value', p.ret.fields[0], [opt_payload(x) for x in rr], 'alg=: element i is the converted a[i]', w)
            elif k in ('approx', 'approx_mat', 'approx_quat'):
                if k == 'approx':
                    a = vsyms('a0', m['K']); b = vsyms('a1', m['K'])
                elif k == 'approx_mat':
                    a = sum(msyms('a0', m['l'], m['n']), []); b = sum(msyms('a1', m['l'], m['n']), [])
                else:
                    a = [sym('a0.' + f) for f in 'xyzw']; b = [sym('a1.' + f) for f in 'xyzw']
                extra = [sym('a2')] + ([sym('a3')] if m['f'] != 'abs_diff_eq' else [])
                preds = [as_bool(fn('approx:' + m['f'], x, y, *extra)) for x, y in zip(a, b)]
                all_or_none(ctx, key, rs, preds, 'paths: approximate equality holds exactly when it holds for every element pair (tolerances forwarded unchanged)', w, lambda p: truth(p.ret))
            elif k == 'mat_as':
                A = msyms('a0', m['l'], m['n']); p = rs.only()
                grid_eq(ctx, key, mgrid(p.ret, m['l'], m['n']), [[fn('tofloat', x) for x in row] for row in A], 'alg=: matrix as_ converts element (i,j) by the scalar rule', w)
            elif k == 'mat_numcast':
                n = m['n']; A = msyms('a0', m['l'], n)
                flat = sum(A, [])
                preds = [opt_pred(fn('numcast:u8', x)) for x in flat]
                all_or_none(ctx, key, rs, preds, 'paths: matrix numcast is None exactly when some element fails', w, lambda p: isinstance(p.ret, Enum) and p.ret.var == 1)
                for p in rs.paths:
                    if p.out == 'ret' and isinstance(p.ret, Enum) and p.ret.var == 1:
                        grid_eq(ctx, key + '/value', mgrid(p.ret.fields[0], m['l'], n), [[opt_payload(fn('numcast:u8', x)) for x in row] for row in A], 'alg=: element (i,j) is the converted a(i,j)', w)
            elif k == 'defeps':
                p = rs.only(); e, mr, mu = p.ret
                from ..alg import named
                ctx.same(key + '/eps', e, named('eps:f32'), 'deleg: default tolerances are the scalar defaults', w)
                ctx.same(key + '/maxrel', mr, named('eps:f32'), 'deleg: default tolerances are the scalar defaults', w)
                ctx.same(key + '/ulps', mu, named('max_ulps'), 'deleg: default tolerances are the scalar defaults', w)
            elif k == 'as_shape':
                p = rs.only()
                vec_eq(ctx, key, p.ret, [fn('tofloat', sym('a0.' + f)) for f in m['flds']], 'alg=: shape as_ converts each field by the scalar rule', w)
        except (AssertionError, KeyError, ValueError, TypeError, IndexError, ZeroDivisionError, AttributeError) as e:
            ctx.ob(key + '/paths', False, 'path structure: the analysed function has the expected (branch-free / enumerated) shape', w, 'analysable', str(e))
    ctx.floor('roots analysed', done, len(roots))
    ctx.floor('lift / cast / approx API uses generated (counted at implementation time)', len(roots), 452)
    mint_rule(ctx)
    az_rule(ctx)


def az_rule(ctx):
    """az-style casts on vectors (feature `az`): per element by the scalar rule; checked_as is None exactly when an element fails;
    the overflow flag of overflowing_as is the OR of the element flags"""
    feats = ['std', 'az'] + [f for f in (QUICK_FEATURES if ctx.tier == 'quick' else ALL_FEATURES) if f != 'std']
    kinds = vec_kinds(feats)
    roots = []; meta = {}

    def add(name, code, max_paths=80, **m):
        roots.append(Root(name, code, max_paths=max_paths)); meta[name] = m
    for K in kinds:
        if vdim(K) > 8 and ctx.tier == 'quick': continue
        VF = '%s<f32>' % K; VI = '%s<i32>' % K
        for f, tr, mth in (('az', 'Cast', 'cast'), ('saturating_as', 'SaturatingCast', 'saturating_cast'), ('wrapping_as', 'WrappingCast', 'wrapping_cast'), ('unwrapped_as', 'UnwrappedCast', 'unwrapped_cast')):
            add('r_az_%s_%s' % (f, K), 'pub fn r_az_%s_%s(a: %s) -> %s { a.%s::<i32>() }' % (f, K, VF, VI, f), kind='plain', K=K, tr=tr, mth=mth)
            add('r_azt_%s_%s' % (f, K), 'pub fn r_azt_%s_%s(a: %s) -> %s { az::%s::%s(a) }' % (f, K, VF, VI, tr, mth), kind='plain', K=K, tr=tr, mth=mth)
        add('r_az_checked_as_%s' % K, 'pub fn r_az_checked_as_%s(a: %s) -> Option<%s> { a.checked_as::<i32>() }' % (K, VF, VI), kind='checked', K=K, tr='CheckedCast', mth='checked_cast')
        add('r_azt_checked_as_%s' % K, 'pub fn r_azt_checked_as_%s(a: %s) -> Option<%s> { az::CheckedCast::checked_cast(a) }' % (K, VF, VI), kind='checked', K=K, tr='CheckedCast', mth='checked_cast')
        add('r_az_overflowing_as_%s' % K, 'pub fn r_az_overflowing_as_%s(a: %s) -> (%s, bool) { a.overflowing_as::<i32>() }' % (K, VF, VI), kind='ovf', K=K, tr='OverflowingCast', mth='overflowing_cast')
        add('r_azt_overflowing_as_%s' % K, 'pub fn r_azt_overflowing_as_%s(a: %s) -> (%s, bool) { az::OverflowingCast::overflowing_cast(a) }' % (K, VF, VI), kind='ovf', K=K, tr='OverflowingCast', mth='overflowing_cast')
    sc = ctx.scan(roots, feats, extra_deps='az = "1"', extra_prelude='extern crate az;\n')
    if sc.compile_error: return
    done = 0
    for r in roots:
        rs = sc.get(r.name); m = meta[r.name]
        if rs is None or not rs.ok: continue
        done += 1
        key = 'c20/' + r.name[2:]; w = r.code; K = m['K']; a = vsyms('a0', K); n = len(a)
        atom = lambda x: fn('%s::%s<f32,i32>' % (m['tr'], m['mth']), x)
        try:
            if m['kind'] == 'plain':
                vec_eq(ctx, key, rs.only().ret, [atom(x) for x in a], 'alg=: az cast converts each element by the scalar rule', w)
            elif m['kind'] == 'checked':
                rr = [atom(x) for x in a]
                preds = [opt_pred(x) for x in rr]
                all_or_none(ctx, key, rs, preds, 'paths: checked_as is None exactly when some element fails to convert', w, lambda p: isinstance(p.ret, Enum) and p.ret.var == 1)
                for p in rs.paths:
                    if p.out == 'ret' and isinstance(p.ret, Enum) and p.ret.var == 1:
                        vec_eq(ctx, key + '/value', p.ret.fields[0], [opt_payload(x) for x in rr], 'alg=: element i is the converted a[i]', w)
            elif m['kind'] == 'ovf':
                rr = [atom(x) for x in a]
                flags = set(); vals_ok = True
                for p in rs.paths:
                    if p.out != 'ret':
                        ctx.ob(key + '/paths', False, 'paths', w, 'returns', p.out); continue
                    val, flag = p.ret
                    vals_ok &= eqv_list(leaves(val), [fn('ret:0', x) for x in rr])
                # the flag: true exactly when some element flag is true (short-circuit || gives one path per first true element + all-false)
                # the flag as a Boolean function of the element flags: evaluated on assignments of the element flags
                # (all 2^n for n <= 8; all-false, every single, every pair, all-true beyond), exactly one path must be selected
                fatoms = [atom_id(fn('ret:1', x)) for x in rr]
                bad = None; nass = 0
                for asg in flag_assignments(n):
                    nass += 1
                    env = {fa: Fraction(1 if b else 0) for fa, b in zip(fatoms, asg)}
                    sel = [p for p in rs.paths if p.out == 'ret' and all(c.eval(env) for c in p.conds)]
                    if len(sel) != 1:
                        bad = (asg, '%d paths selected' % len(sel)); break
                    fl = sel[0].ret[1]
                    got = fl.eval(env) if isinstance(fl, B) else (alg.evalf(fl, env) != 0)
                    if bool(got) != any(asg):
                        bad = (asg, 'flag %s' % got); break
                ctx.ob(key + '/flag', bad is None, 'paths: the overflow flag is true exactly when some element flag is true (%s flag assignments)' % ('all 2^n' if n <= 8 else 'none/singles/pairs/all'), w,
                       'OR of the element flags on %d assignments' % nass, 'element flags %s: %s' % (''.join('1' if b else '0' for b in bad[0]), bad[1]) if bad else '')
                ctx.ob(key + '/value', vals_ok, 'alg=: wrapped value per element', w, [str(fn('ret:0', x)) for x in rr][:3], 'mismatch')
        except (AssertionError, KeyError, ValueError, TypeError, IndexError, ZeroDivisionError, AttributeError) as e:
            ctx.ob(key + '/paths', False, 'path structure', w, 'analysable', str(e))
    ctx.floor('az cast roots analysed', done, 120 if ctx.tier == 'quick' else 156)


def atom_id(r):
    (m, c), = r.num.t.items()
    assert r.is_poly() and c == 1 and len(m) == 1 and m[0][1] == 1, 'not a single atom: %s' % r
    return m[0][0]


def flag_assignments(n):
    import itertools
    if n <= 8:
        for t in itertools.product((False, True), repeat=n): yield t
        return
    yield (False,) * n
    yield (True,) * n
    for i in range(n):
        yield tuple(k == i for k in range(n))
    for i in range(n):
        for j in range(i + 1, n):
            yield tuple(k in (i, j) for k in range(n))


def eqv_list(a, b):
    return len(a) == len(b) and all(x == y for x, y in zip(a, b))


def mint_rule(ctx, prefix='c20', only_kinds=None):
    """optional `mint` conversions keep every element in its place (vectors, points, quaternion, row- and column-matrices for both layouts).
    C03 runs the matrix part and C05 the quaternion part under their own keys (the conversions are part of what those properties state)."""
    roots = []; meta = {}

    def add(name, code, **m):
        roots.append(Root(name, code, max_paths=4)); meta[name] = m
    XY = 'xyzw'
    for n in (2, 3, 4):
        for mt in (['Vector%d' % n] + (['Point%d' % n] if n < 4 else [])):
            add('r_mint_from_%s' % mt, 'pub fn r_mint_from_%s(v: mint::%s<f32>) -> Vec%d<f32> { Vec%d::from(v) }' % (mt, mt, n, n), kind='v', n=n)
            add('r_mint_into_%s' % mt, 'pub fn r_mint_into_%s(v: Vec%d<f32>) -> mint::%s<f32> { v.into() }' % (mt, n, mt), kind='v', n=n)
        for L in ('Rows', 'Cols'):
            for mm, rowwise in (('RowMatrix%d' % n, True), ('ColumnMatrix%d' % n, False)):
                add('r_mint_from_%s_%s%d' % (mm, L, n), 'pub fn r_mint_from_%s_%s%d(m: mint::%s<f32>) -> %s%d<f32> { %s%d::from(m) }' % (mm, L, n, mm, L, n, L, n), kind='mfrom', n=n, l=L, rowwise=rowwise)
                add('r_mint_into_%s_%s%d' % (mm, L, n), 'pub fn r_mint_into_%s_%s%d(m: %s%d<f32>) -> mint::%s<f32> { m.into() }' % (mm, L, n, L, n, mm), kind='minto', n=n, l=L, rowwise=rowwise)
    add('r_mint_from_quat', 'pub fn r_mint_from_quat(q: mint::Quaternion<f32>) -> Quaternion<f32> { Quaternion::from(q) }', kind='qfrom', n=4)
    add('r_mint_into_quat', 'pub fn r_mint_into_quat(q: Quaternion<f32>) -> mint::Quaternion<f32> { q.into() }', kind='qinto', n=4)
    if only_kinds: roots = [r for r in roots if meta[r.name]['kind'] in only_kinds]
    sc = ctx.scan(roots, ['std', 'mint'], extra_deps='mint = "0.5"', extra_prelude='extern crate mint;\n')
    if sc.compile_error: return
    done = 0
    for r in roots:
        rs = sc.get(r.name); m = meta[r.name]
        if rs is None or not rs.ok: continue
        done += 1
        key = prefix + '/' + r.name[2:]; w = r.code; n = m['n']; k = m['kind']
        try:
            p = rs.only()
            if k == 'v':
                vec_eq(ctx, key, p.ret, [sym('a0.' + XY[i]) for i in range(n)], 'perm: mint vector/point conversion keeps every component', w)
            elif k == 'mfrom':
                # element (i,j) of the abstract matrix comes from mint row i / component j (row matrix) or mint column j / component i (column matrix)
                E = [[sym('a0.%s.%s' % ((XY[i], XY[j]) if m['rowwise'] else (XY[j], XY[i]))) for j in range(n)] for i in range(n)]
                grid_eq(ctx, key, mgrid(p.ret, m['l'], n), E, 'perm: element (i,j) = component j of mint row i (RowMatrix) / component i of mint column j (ColumnMatrix), for either storage layout', w)
            elif k == 'minto':
                A = msyms('a0', m['l'], n)
                got = leaves(p.ret)
                E = [A[a][b] if m['rowwise'] else A[b][a] for a in range(n) for b in range(n)]
                vec_eq(ctx, key, got, E, 'perm: mint row i / column j lists row i / column j of the abstract matrix, for either storage layout', w)
            elif k == 'qfrom':
                vec_eq(ctx, key, p.ret, [sym('a0.v.x'), sym('a0.v.y'), sym('a0.v.z'), sym('a0.s')], 'perm: mint quaternion (vector part v, scalar s) -> (x, y, z, w)', w)
            elif k == 'qinto':
                got = [str(x) for x in leaves(p.ret)]
                # mint::Quaternion { v: Vector3, s }: the leaves are v.x, v.y, v.z, s in this order
                ctx.ob(key, got == ['a0.x', 'a0.y', 'a0.z', 'a0.w'], 'perm: quaternion -> mint quaternion: v = (x, y, z), s = w', w, 'v=(x,y,z), s=w', got)
        except (AssertionError, KeyError, ValueError, TypeError, IndexError, ZeroDivisionError, AttributeError) as e:
            ctx.ob(key + '/paths', False, 'branch-free conversion', w, 'one path', str(e))
    ctx.floor('mint conversion roots analysed', done, len(roots))
