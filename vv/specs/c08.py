"""C08 — projection matrices map the view volume onto the canonical clip volume."""
from ..run import Root, leaves
from ..alg import C, sym, fn, named
from ..sem import B, gt, lt
from ..shapes import *
from ..rules import feasible_paths, nonconst_conds

ID = 'C08'

PLANES = ['left', 'right', 'bottom', 'top', 'near', 'far']


def build_roots():
    roots = []; meta = {}

    def add(name, code, **m):
        roots.append(Root(name, code, max_paths=40)); meta[name] = m

    for L in ('Rows', 'Cols'):
        M = '%s4<f32>' % L
        add('r_orthowd_%s' % L, 'pub fn r_orthowd_%s(o: FrustumPlanes<f32>) -> %s { %s4::orthographic_without_depth_planes(o) }' % (L, M, L), kind='orthowd', l=L)
        for h in ('lh', 'rh'):
            for d in ('zo', 'no'):
                add('r_ortho_%s_%s_%s' % (h, d, L), 'pub fn r_ortho_%s_%s_%s(o: FrustumPlanes<f32>) -> %s { %s4::orthographic_%s_%s(o) }' % (h, d, L, M, L, h, d), kind='ortho', h=h, d=d, l=L)
                add('r_frustum_%s_%s_%s' % (h, d, L), 'pub fn r_frustum_%s_%s_%s(o: FrustumPlanes<f32>) -> %s { %s4::frustum_%s_%s(o) }' % (h, d, L, M, L, h, d), kind='frustum', h=h, d=d, l=L)
                add('r_persp_%s_%s_%s' % (h, d, L), 'pub fn r_persp_%s_%s_%s(fov: f32, aspect: f32, near: f32, far: f32) -> %s { %s4::perspective_%s_%s(fov, aspect, near, far) }' % (h, d, L, M, L, h, d), kind='persp', h=h, d=d, l=L)
                add('r_pfov_%s_%s_%s' % (h, d, L), 'pub fn r_pfov_%s_%s_%s(fov: f32, width: f32, height: f32, near: f32, far: f32) -> %s { %s4::perspective_fov_%s_%s(fov, width, height, near, far) }' % (h, d, L, M, L, h, d), kind='pfov', h=h, d=d, l=L)
            add('r_tinf_%s_%s' % (h, L), 'pub fn r_tinf_%s_%s(fov: f32, aspect: f32, near: f32, eps: f32) -> %s { %s4::tweaked_infinite_perspective_%s(fov, aspect, near, eps) }' % (h, L, M, L, h), kind='tinf', h=h, l=L)
            add('r_inf_%s_%s' % (h, L), 'pub fn r_inf_%s_%s(fov: f32, aspect: f32, near: f32) -> %s { %s4::infinite_perspective_%s(fov, aspect, near) }' % (h, L, M, L, h), kind='inf', h=h, l=L)
    return roots, meta


def hom(G, p):
    q = matvec(G, p)
    return q


def run(ctx):
    ctx.level = 'proof'
    ctx.explanation = ('Each of the 20 projection constructors (+ orthographic_without_depth_planes) in both layouts is interpreted with free symbols for the planes / fov / aspect / sizes; the resulting abstract matrix is '
                       'multiplied (checker algebra) with the eight corners of the view volume of its handedness, divided by w, and must give x,y = -1/+1, depth(near) = 0 or -1, depth(far) = 1, '
                       'w = distance in front of the viewer; perspective forms must equal the frustum of their implied symmetric planes and lh = rh composed with the z mirror. '
                       'All are rational-function identities (tan = sin/cos), hence hold for every non-degenerate volume.')
    ctx.assumptions = ['f32 operations read as exact field operations; tan(x) = sin(x)/cos(x)', 'debug assertions are outcomes of the analysis: the returning path may only require the documented domain (fov in (0,2pi), positive aspect/size/near/far, far > near)']
    roots, meta = build_roots()
    sc = ctx.scan(roots, QUICK_FEATURES)
    if sc.compile_error: return
    done = 0
    grids = {}
    for r in roots:
        rs = sc.get(r.name); m = meta[r.name]
        if rs is None or not rs.ok: continue
        done += 1
        k = m['kind']; key = 'c08/' + r.name[2:]; w = r.code
        rets = [p for p in feasible_paths(rs) if p.out == 'ret']
        if not ctx.ob(key + '/one-returning-path', len(rets) == 1, 'paths: exactly one returning outcome (the others are debug-assertion panics)', w, 1, len(rets)): continue
        p = rets[0]
        G = mgrid(p.ret, m['l'], 4)
        grids[r.name] = G
        h = m.get('h'); d = m.get('d')
        zs = C(1) if h == 'lh' else C(-1)     # sign of z in front of the viewer
        if k in ('ortho', 'frustum', 'orthowd'):
            pl = {n: sym('a0.' + n) for n in PLANES}
            allowed = []
        else:
            fov = sym('a0'); half = fov / C(2)
            T = fn('sin', half) / fn('cos', half)
            if k == 'pfov':
                width, height, near, far = sym('a1'), sym('a2'), sym('a3'), sym('a4'); aspect = width / height
                allowed = [gt(width, C(0)), gt(height, C(0))]
            elif k == 'persp':
                aspect, near, far = sym('a1'), sym('a2'), sym('a3')
                allowed = [gt(aspect, C(0))]
            else:
                aspect, near = sym('a1'), sym('a2'); far = None
                allowed = [gt(aspect, C(0))]
            allowed += [gt(fov, C(0)), lt(fov, C(2) * named('pi')), gt(near, C(0))]
            if far is not None: allowed += [gt(far, C(0)), gt(far, near)]
            top = near * T; right = top * aspect
            pl = {'left': -right, 'right': right, 'bottom': -top, 'top': top, 'near': near, 'far': far}
        conds = nonconst_conds(p)
        foreign = [str(c) for c in conds if not any(c == a for a in allowed)]
        ctx.ob(key + '/domain', not foreign, 'paths: the returning path requires only the documented domain', w, [str(a) for a in allowed], foreign)
        if k == 'orthowd':
            for xn, xe in (('left', -1), ('right', 1)):
                for yn, ye in (('bottom', -1), ('top', 1)):
                    q = hom(G, [pl[xn], pl[yn], sym('z'), C(1)])
                    ctx.same('%s/%s-%s/x' % (key, xn, yn), q[0] / q[3], C(xe), 'alg=: x maps to -1/+1', w)
                    ctx.same('%s/%s-%s/y' % (key, xn, yn), q[1] / q[3], C(ye), 'alg=: y maps to -1/+1', w)
            continue
        near_depth = C(0) if d == 'zo' else C(-1)
        if k in ('tinf', 'inf'):
            eps = sym('a3') if k == 'tinf' else C(0)
            dd = sym('dist')
            for xn, xe in (('left', -1), ('right', 1)):
                for yn, ye in (('bottom', -1), ('top', 1)):
                    sc_ = dd / pl['near']
                    q = hom(G, [pl[xn] * sc_, pl[yn] * sc_, zs * dd, C(1)])
                    ctx.same('%s/%s-%s/x' % (key, xn, yn), q[0] / q[3], C(xe), 'alg=: frustum edge at any distance maps to x = -1/+1', w)
                    ctx.same('%s/%s-%s/y' % (key, xn, yn), q[1] / q[3], C(ye), 'alg=: frustum edge at any distance maps to y = -1/+1', w)
                    ctx.same('%s/%s-%s/w' % (key, xn, yn), q[3], dd, 'alg=: w = distance in front of the viewer (positive)', w)
                    ctx.same('%s/%s-%s/depth' % (key, xn, yn), q[2] / q[3], (C(1) - eps) - (C(2) - eps) * pl['near'] / dd, 'alg=: depth(dist) = (1-eps) - (2-eps) near/dist: -1 at the near plane, tends to 1-eps at infinity', w)
            qn = hom(G, [C(0), C(0), zs * pl['near'], C(1)])
            ctx.same(key + '/near-depth', qn[2] / qn[3], C(-1), 'alg=: near plane maps to depth -1', w)
            continue
        persp = k != 'ortho'
        for pn, depth in (('near', near_depth), ('far', C(1))):
            for xn, xe in (('left', -1), ('right', 1)):
                for yn, ye in (('bottom', -1), ('top', 1)):
                    sc_ = (pl[pn] / pl['near']) if persp else C(1)
                    q = hom(G, [pl[xn] * sc_, pl[yn] * sc_, zs * pl[pn], C(1)])
                    ck = '%s/%s-%s-%s' % (key, pn, xn, yn)
                    ctx.same(ck + '/x', q[0] / q[3], C(xe), 'alg=: corner of the view volume maps to x = -1/+1 after the homogeneous divide', w)
                    ctx.same(ck + '/y', q[1] / q[3], C(ye), 'alg=: corner of the view volume maps to y = -1/+1 after the homogeneous divide', w)
                    ctx.same(ck + '/depth', q[2] / q[3], depth, 'alg=: near plane maps to depth 0 (zo) / -1 (no), far plane to 1', w)
                    ctx.same(ck + '/w', q[3], pl[pn] if persp else C(1), 'alg=: w = distance in front of the viewer (perspective) / 1 (orthographic)', w)
    # sibling laws
    for L in ('Rows', 'Cols'):
        mirror = [[C(1), 0, 0, 0], [0, C(1), 0, 0], [0, 0, C(-1), 0], [0, 0, 0, C(1)]]
        mirror = [[C(0) if e == 0 else e for e in row] for row in mirror]
        fams = [('ortho_%s_%s', ('zo', 'no')), ('frustum_%s_%s', ('zo', 'no')), ('persp_%s_%s', ('zo', 'no')), ('pfov_%s_%s', ('zo', 'no'))]
        for pat, ds in fams:
            for d in ds:
                a = grids.get('r_' + pat % ('lh', d) + '_' + L); b = grids.get('r_' + pat % ('rh', d) + '_' + L)
                if a is None or b is None: continue
                grid_eq(ctx, 'c08/mirror/%s_%s' % (pat % ('x', d), L), a, matmul(b, mirror), 'alg≡: left-handed constructor = right-handed one composed with the z mirror', pat % ('lh', d))
        for nm in ('tinf_%s', 'inf_%s'):
            a = grids.get('r_' + nm % 'lh' + '_' + L); b = grids.get('r_' + nm % 'rh' + '_' + L)
            if a is not None and b is not None:
                grid_eq(ctx, 'c08/mirror/%s_%s' % (nm % 'x', L), a, matmul(b, mirror), 'alg≡: left-handed constructor = right-handed one composed with the z mirror', nm)
        # perspective = frustum of the implied symmetric planes (substitution into the frustum's abstract matrix)
        from ..alg import atom_in
        for h in ('lh', 'rh'):
            for d in ('zo', 'no'):
                fr = grids.get('r_frustum_%s_%s_%s' % (h, d, L))
                for fam in ('persp', 'pfov'):
                    pg = grids.get('r_%s_%s_%s_%s' % (fam, h, d, L))
                    if fr is None or pg is None: continue
                    fov = sym('a0'); half = fov / C(2); T = fn('sin', half) / fn('cos', half)
                    if fam == 'persp': aspect, near, far = sym('a1'), sym('a2'), sym('a3')
                    else: aspect, near, far = sym('a1') / sym('a2'), sym('a3'), sym('a4')
                    top = near * T; right = top * aspect
                    mp = {atom_in('a0.left'): -right, atom_in('a0.right'): right, atom_in('a0.bottom'): -top, atom_in('a0.top'): top, atom_in('a0.near'): near, atom_in('a0.far'): far}
                    grid_eq(ctx, 'c08/persp=frustum/%s_%s_%s_%s' % (fam, h, d, L), pg, [[e.subs(mp) for e in row] for row in fr], 'alg≡: perspective matrix = frustum matrix of the symmetric planes it implies', 'perspective_%s_%s' % (h, d))
    ctx.floor('roots analysed', done, len(roots))
    ctx.floor('obligations', ctx.obligations, 1000)
