"""Check context: obligations, violations, known findings, evidence."""
import json, os, sys, time, hashlib, re
from . import run as vrun
from .run import VERIF

KNOWN = os.path.join(VERIF, 'known_findings.json')


class Internal(Exception):
    pass


# sites (generic vek bodies) that ask for a type-level constant of one of their type parameters, audited by hand: the constant does not
# select behaviour there. Any other site makes the root fail closed: only the roots' instantiations are analysed.
TYPECONST_AUDITED = {
    'mat::transmute_unchecked': 'debug_assert_eq!(size_of::<S>(), size_of::<D>()): a sanity check of the layout cast, no behaviour selected',
    '::is_packed': 'returns the comparison size_of::<Self>() == n * size_of::<T>() itself (a layout query)',
}


class Ctx:
    def __init__(self, pid, tier, seed=0, only=None):
        self.pid = pid; self.tier = tier; self.seed = seed; self.only = only
        self.t0 = time.time()
        self.obligations = 0; self.discharged = 0
        self.keys = set()
        self.violations = []     # dicts: key, rule, where, expected, found
        self.samples = []
        self.floors = []
        self.counts = {}
        self.rules = {}
        self.assumptions = []
        self.trusted = ['rustc type checker / trait resolution / MIR construction (nightly 1.97)', 'vekscan models of core (vekscan/src/models.rs)', 'vv/alg.py exact polynomial arithmetic', 'oracles in vv/specs (written from the property statement / textbook definitions)']
        self.level = 'proof'
        self.explanation = ''
        self.roots_analysed = 0; self.paths_analysed = 0; self.steps = 0
        self.scan_wall = 0.0
        self.internal = []
        self.profile = 'debug'  # 'release' during the release pass (debug_assert! conditions not evaluated); keys get the prefix rel:
        self.visited = {}      # feature set -> vek bodies interpreted by any root of this check (def-paths; impl ordinals depend on the features)
        self.cpasses = {}      # feature set -> vrun.ConfigPass (started with the first scan that uses the feature set)
        self.no_cpass = bool(only) or bool(os.environ.get('VV_NO_CONFIG_PASS'))
        self.elem = 'f32'      # 'f64' during the thorough tier's twin pass (every root re-instantiated with f64 elements)

    # ------------------------------------------------------------ analysis
    def scan(self, roots, features, local=False, extra_prelude='', extra_deps=''):
        if self.only: roots = [r for r in roots if self.only in r.name]
        if self.elem != 'f32':
            roots = [vrun.Root(r.name, r.code.replace(r.name, '\0N\0').replace('f32', self.elem).replace('\0N\0', r.name), [o.replace('f32', self.elem) for o in r.opaque], r.max_paths) for r in roots]
        names = [r.name for r in roots]
        if len(set(names)) != len(names):
            dup = [n for n in names if names.count(n) > 1]
            raise Internal('duplicate root names: %s' % sorted(set(dup))[:5])
        if os.environ.get('VV_DUMP_ROOTS'):
            with open(os.environ['VV_DUMP_ROOTS'], 'a') as f:
                for r in roots: f.write('%s\t%s\t%s\n' % (self.pid, r.name, ' '.join(r.code.split())))
        fk = tuple(sorted(features))
        if not self.no_cpass and fk not in self.cpasses: self.cpasses[fk] = vrun.ConfigPass(features)
        sc = vrun.scan(roots, features, local=local, extra_prelude=extra_prelude, extra_deps=extra_deps, extra_env=({'VEKSCAN_RELEASE': '1'} if self.profile == 'release' else None))
        self.scan_wall += sc.wall
        if sc.compile_error is not None:
            err = first_error(sc.compile_error)
            self.viol('build/roots-do-not-compile', rule='compile witness: every analysed API use must type-check against /repo', where=err.get('where', ''), found=err.get('msg', ''), expected='roots crate type-checks', detail=sc.compile_error[-4000:])
            return sc
        if os.environ.get('VV_DUMP_VISITED'):
            vis = set()
            for r in roots:
                res = sc.get(r.name)
                if res is not None: vis |= set(res.d.get('visited', []))
            with open(os.environ['VV_DUMP_VISITED'], 'a') as f:
                for v in sorted(vis): f.write('%s\t%s\n' % (self.pid, v))
        for r in roots:
            res = sc.get(r.name)
            if res is None:
                raise Internal('driver did not report root %s' % r.name)
            self.visited.setdefault(fk, set()).update(res.d.get('visited', []))
            for pth in res.d.get('paths', []):
                for e in pth.get('events', []):
                    if e[0] == 'note' and e[1].startswith('typeconst|'):
                        _, what, site = e[1].split('|', 2)
                        if any(a in site for a in TYPECONST_AUDITED): self.counts['type-level constants at audited sites'] = self.counts.get('type-level constants at audited sites', 0) + 1; continue
                        self.viol('incomplete/type-dependent/%s' % site, rule='fail closed: a generic vek body asks for a type-level constant of its type parameter (%s); its behaviour may differ between element types and only the instantiations of the roots are analysed' % what, where=site, found='%s in %s (root %s)' % (what, site, r.name), expected='generic code that does not inspect its type parameter, or an audited site (vv/core.py: TYPECONST_AUDITED)')
            self.roots_analysed += 1; self.paths_analysed += len(res.paths); self.steps += res.steps
            if not res.ok and 'undefined behaviour' in res.status:
                self.viol('ub/%s' % r.name, rule='no undefined behaviour on any explored path (out-of-bounds unchecked access)', where=r.code, found=res.status, expected='in-bounds accesses only')
            elif not res.ok:
                self.viol('incomplete/%s' % r.name, rule='fail closed: the analysis must cover the whole root (no unmodelled callee, data-dependent loop or path explosion)', where=r.name, found=res.status, expected='analysable straight-line / finitely branching code')
        return sc

    # ------------------------------------------------------------ obligations
    def ob(self, key, ok, rule='', where='', expected=None, found=None, detail=None):
        if self.elem != 'f32': key = self.elem + ':' + key
        if self.profile == 'release': key = 'rel:' + key
        self.obligations += 1
        self.keys.add(key)
        r = self.rules.setdefault(rule or '?', [0, 0]); r[0] += 1
        if ok:
            self.discharged += 1; r[1] += 1
            if len(self.samples) < 12 and (self.obligations % 37 == 1 or len(self.samples) < 4):
                self.samples.append({'obligation': key, 'rule': rule, 'value': short(found if found is not None else expected)})
            return True
        self.viol(key, rule, where, expected, found, detail, counted=True)
        return False

    def viol(self, key, rule='', where='', expected=None, found=None, detail=None, counted=False):
        if self.elem != 'f32' and not counted and not key.startswith(self.elem + ':'): key = self.elem + ':' + key
        if self.profile == 'release' and not counted and not key.startswith('rel:'): key = 'rel:' + key
        if not counted:
            self.obligations += 1; self.keys.add(key)
        self.violations.append({'key': key, 'rule': rule, 'where': where, 'expected': short(expected, 2000), 'found': short(found, 2000), 'detail': detail})

    def same(self, key, found, expected, rule='', where=''):
        try:
            ok = eqv(found, expected)
        except Exception as e:  # comparison itself failed: fail closed
            return self.ob(key, False, rule, where, expected, 'comparison error: %r' % (e,))
        return self.ob(key, ok, rule, where, expected, found)

    def floor(self, what, count, minimum):
        self.floors.append({'what': what, 'count': count, 'floor': minimum})
        self.counts[what] = count
        if count < minimum and not self.only:
            self.internal.append('floor not met: %s = %d < %d (a rule matching too few sites must not pass)' % (what, count, minimum))

    # ------------------------------------------------------------ configuration pass
    def debug_assert_bodies_visited(self):
        """names of the interpreted vek bodies that contain a debug_assert! (their release behaviour differs: release pass)"""
        out = set()
        for fk, cp in self.cpasses.items():
            cp.join()
            if cp.res[0] is None or cp.res[0].compile_error is not None or len(cp.res[0].local) != 1: continue
            a = cp.res[0].local[0]
            names = {k: v[0] for k, v in a['bodykeys'].items()}
            out |= set(names[v] for v in self.visited.get(fk, ()) if v in names and names[v] in a.get('debug_assert_bodies', {}))
        return sorted(out)

    def config_invariance(self):
        """every vek body this check interpreted must have the same MIR in a release build with the stable channel cfg (section 6.6)"""
        self._cfg_seen = set(); self._cfg_n = 0; self._cfg_ndbg = 0; self._cfg_unknown = set()
        for fk, cp in self.cpasses.items():
            self._config_invariance(cp, self.visited.get(fk, set()))
        self.counts['config:bodies compared'] = self._cfg_n; self.counts['config:bodies with debug_assert'] = self._cfg_ndbg
        if self._cfg_n == 0 and not self.only and any(self.visited.values()):
            self.internal.append('configuration pass matched none of the interpreted bodies')
        self.assumptions.append('configuration pass: %d interpreted vek bodies compared between the analysed build (debug assertions, cfg(nightly)) and a release build with cfg(stable) and libm for std, and a build with every optional feature, per feature set used by the check (%d); overflow checks kept on in both (integer overflow is outside every claim); other targets (pointer width, OS) are not compared' % (self._cfg_n, len(self.cpasses)))

    def _config_invariance(self, cp, visited):
        RULE = 'config: every vek body interpreted by this check has identical MIR in a release build with the stable-channel cfg and libm in place of std (literals of debug_assert! masked), so the verdict transfers to the configurations users build'
        RULE2 = 'config: code inside a debug_assert! invocation (absent from release builds) has no effect other than panicking'
        cp.join()
        for i, what in enumerate(cp.what):
            if cp.err[i] or cp.res[i] is None:
                self.internal.append('configuration pass (%s) failed: %s' % (what, cp.err[i])); return
            if cp.res[i].compile_error is not None:
                err = first_error(cp.res[i].compile_error)
                self.viol('cfg/build/%d' % i, rule='config: vek compiles in the %s' % what, where=err.get('where', ''), found=err.get('msg', ''), expected='compiles', detail=cp.res[i].compile_error[-3000:]); return
            if len(cp.res[i].local) != 1:
                self.internal.append('configuration pass (%s): %d local fact files' % (what, len(cp.res[i].local))); return
        a, b, c = (cp.res[i].local[0] for i in range(3))
        keys = a['bodykeys']; fa, fb, fc = a['fingerprints'], b['fingerprints'], c['fingerprints']
        dbg = dict(a.get('debug_assert_bodies', {})); dbg.update(b.get('debug_assert_bodies', {})); dbg.update(c.get('debug_assert_bodies', {}))
        RULE3 = 'config: every vek body interpreted by this check has identical MIR when every optional cargo feature is enabled (a feature only adds items)'
        n = 0; ndbg = 0
        for v in sorted(visited):
            if v not in keys: continue            # a body of num-traits / approx / core
            name, _pub, file, lo, hi = keys[v]
            if name in self._cfg_seen: continue
            self._cfg_seen.add(name)
            n += 1
            where = '%s:%s-%s %s' % (file, lo, hi, name)
            self.ob('cfg/%s/same-in-release-stable-build' % name, name in fb and fa.get(name) == fb.get(name), RULE, where, 'identical normalised MIR', ('differs in the %s' % cp.what[1]) if name in fb else 'body absent from the %s' % cp.what[1])
            self.ob('cfg/%s/same-with-all-features' % name, name in fc and fa.get(name) == fc.get(name), RULE3, where, 'identical normalised MIR', ('differs in the %s' % cp.what[2]) if name in fc else 'body absent from the %s' % cp.what[2])
            if name in dbg:
                ndbg += 1
                self.ob('cfg/%s/debug-assert-pure' % name, not dbg[name][1], RULE2, where, 'no write, mutable borrow or move of anything but temporaries', dbg[name][1])
        # configuration predicates no analysed configuration flips (target_*, panic, ...): fail closed where they guard interpreted code
        FLIPPED = {'nightly', 'stable', 'debug_assertions', 'test'}   # channel and profile: this pass; test: the analysed build is the non-test one users get
        byfile = {}
        for k, (name, _pub, file, lo, hi) in keys.items(): byfile.setdefault(file, []).append((lo, hi, k, name))
        unknown = [r for r in a.get('cfg_atoms', []) if not (r[3] in FLIPPED or r[3].startswith('feature='))]
        self.counts['config:cfg predicates in the crate'] = len(a.get('cfg_atoms', [])); self.counts['config:cfg predicates outside {feature, channel, profile, test}'] = len(unknown)
        for file, line, form, atom in unknown:
            bodies = [(lo, hi, k, name) for lo, hi, k, name in byfile.get(file, []) if lo <= line <= hi]
            if not bodies:
                after = sorted(x for x in byfile.get(file, []) if x[0] >= line)
                bodies = [x for x in after if x[0] == after[0][0]] if after else []
            hit = sorted(set(name for lo, hi, k, name in bodies if k in visited))
            if self.pid == 'C20' and not hit: hit = ['(crate)']
            for name in hit:
                if (atom, name) in self._cfg_unknown: continue
                self._cfg_unknown.add((atom, name))
                self.viol('incomplete/cfg-predicate/%s/%s' % (atom, name), rule='fail closed: code this check interprets is conditional on a configuration predicate that no analysed configuration flips (only cargo features, the channel cfg and debug assertions are compared)', where='%s:%s %s(%s)' % (file, line, form, atom), found='%s(.. %s ..) at %s:%s' % (form, atom, file, line), expected='configuration predicates over cargo features, nightly/stable, debug_assertions, test only')
        self._cfg_n += n; self._cfg_ndbg += ndbg
        self.counts['config:bodies of the crate'] = max(self.counts.get('config:bodies of the crate', 0), len(fa))

    # ------------------------------------------------------------ output
    def finish(self):
        for cp in self.cpasses.values(): cp.join()     # never leave a compilation (and its scratch directory) behind
        known = {'findings': [], 'fixed': []}
        if os.path.exists(KNOWN): known = json.load(open(KNOWN))
        kf = {f['key']: f for f in known.get('findings', []) if f['property'] == self.pid}
        outdir = os.environ.get('VV_OUT_DIR') or os.path.join(VERIF, 'out'); os.makedirs(outdir, exist_ok=True)
        for f in os.listdir(outdir):
            if f.startswith(self.pid + '.'): os.remove(os.path.join(outdir, f))
        new = []; seen_known = []
        byk = {}
        for v in self.violations: byk.setdefault(v['key'], v)
        for k, v in byk.items():
            if k in kf: seen_known.append(k)
            else: new.append(v)
        for k in seen_known:
            print('KNOWN-FINDING: property=%s %s %s' % (self.pid, k, kf[k].get('what', '')))
        for v in new:
            fn = os.path.join(outdir, '%s.%s.json' % (self.pid, re.sub(r'[^A-Za-z0-9_.-]+', '_', v['key'])[:150]))
            json.dump(v, open(fn, 'w'), indent=1, default=str)
            print('VIOLATION property=%s replay=%s' % (self.pid, fn))
            print('  key: %s\n  rule: %s\n  where: %s\n  expected: %s\n  found: %s' % (v['key'], v['rule'], v['where'], short(v['expected'], 300), short(v['found'], 300)))
        for m in self.internal: print('INTERNAL: %s' % m)
        wall = time.time() - self.t0
        nontriv = len(self.keys)
        ev = {
            'property_id': self.pid, 'tier': self.tier, 'seed': self.seed, 'level': self.level,
            'coverage': {
                # obligations that reproduce a recorded known finding are not claimed: they are listed under known_findings_reproduced
                'obligations': self.obligations - len(seen_known), 'discharged': self.discharged, 'obligations_failing_as_recorded_known_findings': len(seen_known),
                'checker_cmd': './check %s --tier %s' % (self.pid, self.tier),
                'trusted_base': self.trusted,
                'evaluations': self.obligations, 'distinct_nontrivial': nontriv,
                'rule': 'obligations are (root, output element / path / ordering) instances of the rules below, generated from the MIR of /repo by vekscan; each distinct obligation key is one distinct non-trivial case',
                'rules': {k: {'instances': v[0], 'discharged': v[1]} for k, v in self.rules.items()},
                'samples': self.samples or [{'note': 'no passing obligation sampled'}],
                'roots_analysed': self.roots_analysed, 'paths_analysed': self.paths_analysed, 'mir_interpreter_steps': self.steps,
                'floors': self.floors, 'counts': self.counts,
                'known_findings_reproduced': seen_known,
                'explanation': self.explanation,
                'exhaustive': True,
                'analysis_wall_s': round(self.scan_wall, 2),
            },
            'assumptions': self.assumptions,
            'wall_s': round(wall, 2),
            'violations': len(new),
        }
        evdir = os.environ.get('VV_EVIDENCE_DIR') or os.path.join(VERIF, 'evidence')
        os.makedirs(evdir, exist_ok=True)
        json.dump(ev, open(os.path.join(evdir, self.pid + '.json'), 'w'), indent=1, default=str)
        print('%s %s: %d obligations, %d discharged, %d violations (%d known), %d roots, %d paths, %.1fs' % (self.pid, self.tier, self.obligations, self.discharged, len(new), len(seen_known), self.roots_analysed, self.paths_analysed, wall))
        if new: return 1
        if self.internal: return 2
        return 0


def short(x, n=400):
    if x is None: return None
    s = x if isinstance(x, str) else repr(x) if not hasattr(x, '__str__') else str(x)
    if isinstance(x, (list, tuple, dict)): s = repr(x)
    return s if len(s) <= n else s[:n] + '...'


def eqv(a, b):
    """structural equality of converted values (Rat equality is semantic)"""
    from .run import Ptr, Enum
    if isinstance(a, Ptr): a = a.v
    if isinstance(b, Ptr): b = b.v
    if isinstance(a, list) or isinstance(b, list):
        return isinstance(a, list) and isinstance(b, list) and len(a) == len(b) and all(eqv(x, y) for x, y in zip(a, b))
    if isinstance(a, Enum) or isinstance(b, Enum):
        return isinstance(a, Enum) and isinstance(b, Enum) and a.var == b.var and eqv(a.fields, b.fields)
    return type(a) == type(b) and a == b


def first_error(log):
    m = re.search(r'error(\[E\d+\])?: (.*)\n\s*--> ([^\n]+)', log)
    if m: return {'msg': (m.group(1) or '') + ' ' + m.group(2), 'where': m.group(3)}
    m = re.search(r'error(\[E\d+\])?: (.*)', log)
    return {'msg': m.group(2) if m else log[-300:], 'where': ''}
