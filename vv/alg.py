"""Exact algebra for the checker: multivariate polynomials / rational functions over atoms.

Atoms are input leaves, named constants and applications of uninterpreted functions
(sqrt, sin, cos, floor, ...). Normal-form rewriting that is applied everywhere:
  sqrt(P)^2 -> P,  sin(x)^2 -> 1 - cos(x)^2        (single-leading-term relations, confluent)
Nothing else is interpreted. No solver, no CAS: stdlib only.
"""
from fractions import Fraction
import sys

sys.setrecursionlimit(100000)

# ------------------------------------------------------------------ atoms
_ATOMS = []          # id -> (kind, name, args)   kind in {'in','const','fn'}
_ATOM_IDX = {}       # ('in', name) / ('const', name) -> id
_FN_ATOMS = {}       # fn name -> [ids]


def reset():
    _ATOMS.clear(); _ATOM_IDX.clear(); _FN_ATOMS.clear()


def atom_in(name):
    k = ('in', name)
    if k not in _ATOM_IDX:
        _ATOM_IDX[k] = len(_ATOMS); _ATOMS.append(('in', name, ()))
    return _ATOM_IDX[k]


def atom_const(name):
    k = ('const', name)
    if k not in _ATOM_IDX:
        _ATOM_IDX[k] = len(_ATOMS); _ATOMS.append(('const', name, ()))
    return _ATOM_IDX[k]


def atom_fn(name, args):
    """intern fn(args) up to semantic equality of the (Rat) arguments"""
    lst = _FN_ATOMS.setdefault(name, [])
    for i in lst:
        a = _ATOMS[i][2]
        if len(a) == len(args) and all(x == y for x, y in zip(a, args)):
            return i
    i = len(_ATOMS); _ATOMS.append(('fn', name, tuple(args))); lst.append(i)
    return i


def atom_str(i):
    k, n, a = _ATOMS[i]
    if k == 'fn':
        return '%s(%s)' % (n, ', '.join(str(x) for x in a))
    return n


# ------------------------------------------------------------------ polynomials
def _mono_mul(a, b):
    if not a: return b
    if not b: return a
    out = []; i = j = 0
    while i < len(a) and j < len(b):
        if a[i][0] == b[j][0]:
            out.append((a[i][0], a[i][1] + b[j][1])); i += 1; j += 1
        elif a[i][0] < b[j][0]:
            out.append(a[i]); i += 1
        else:
            out.append(b[j]); j += 1
    out.extend(a[i:]); out.extend(b[j:])
    return tuple(out)


def _needs_rewrite(m):
    for (a, e) in m:
        if e >= 2:
            k, n, _ = _ATOMS[a]
            if k == 'fn' and n in ('sqrt', 'sin'):
                return True
    return False


class Poly:
    __slots__ = ('t',)

    def __init__(self, t=None):
        self.t = t if t is not None else {}

    @staticmethod
    def const(c):
        c = Fraction(c)
        return Poly({(): c}) if c != 0 else Poly()

    @staticmethod
    def atom(i):
        return Poly({((i, 1),): Fraction(1)})

    def is_zero(self): return not self.t

    def is_const(self): return all(m == () for m in self.t)

    def const_value(self):
        return self.t.get((), Fraction(0))

    def __add__(self, o):
        r = dict(self.t)
        for m, c in o.t.items():
            v = r.get(m, 0) + c
            if v == 0: r.pop(m, None)
            else: r[m] = v
        return Poly(r)

    def __neg__(self): return Poly({m: -c for m, c in self.t.items()})

    def __sub__(self, o): return self + (-o)

    def scale(self, c):
        c = Fraction(c)
        if c == 0: return Poly()
        return Poly({m: v * c for m, v in self.t.items()})

    def __mul__(self, o):
        if len(self.t) > len(o.t): self, o = o, self
        r = {}
        rewrite = False
        for m1, c1 in self.t.items():
            for m2, c2 in o.t.items():
                m = _mono_mul(m1, m2)
                if not rewrite and _needs_rewrite(m): rewrite = True
                v = r.get(m, 0) + c1 * c2
                if v == 0: r.pop(m, None)
                else: r[m] = v
        p = Poly(r)
        return p.normalize() if rewrite else p

    def normalize(self):
        """apply sqrt(P)^2 -> P and sin(x)^2 -> 1-cos(x)^2 until no monomial needs it"""
        todo = [m for m in self.t if _needs_rewrite(m)]
        if not todo: return self
        res = Poly({m: c for m, c in self.t.items() if not _needs_rewrite(m)})
        for m in todo:
            c = self.t[m]
            acc = Poly.const(c)
            rest = []
            for (a, e) in m:
                k, n, args = _ATOMS[a]
                if k == 'fn' and n == 'sqrt' and e >= 2:
                    inner = args[0]
                    if not inner.is_poly():
                        rest.append((a, e)); continue
                    q, r_ = divmod(e, 2)
                    for _ in range(q): acc = acc * inner.num
                    if r_: rest.append((a, 1))
                elif k == 'fn' and n == 'sin' and e >= 2:
                    q, r_ = divmod(e, 2)
                    cosa = atom_fn('cos', args)
                    one_minus = Poly.const(1) - Poly({((cosa, 2),): Fraction(1)})
                    for _ in range(q): acc = acc * one_minus
                    if r_: rest.append((a, 1))
                else:
                    rest.append((a, e))
            restp = Poly({tuple(rest): Fraction(1)})
            # guard against non-terminating rewrites (sqrt of a non-polynomial stays)
            if tuple(rest) == m:
                res = res + Poly({m: c})
            else:
                res = res + acc * restp
        return res

    def __eq__(self, o): return self.t == o.t

    def __hash__(self): return hash(frozenset(self.t.items()))

    def atoms(self):
        s = set()
        for m in self.t:
            for (a, _) in m: s.add(a)
        return s

    def lead(self):
        m = max(self.t)
        return m, self.t[m]

    def degree_in(self, atom):
        d = 0
        for m in self.t:
            for (a, e) in m:
                if a == atom: d = max(d, e)
        return d

    def subs(self, mapping):
        """substitute atoms by Rat values (mapping: atom id -> Rat); returns Rat"""
        total = Rat.const(0)
        for m, c in self.t.items():
            term = Rat.const(c)
            for (a, e) in m:
                base = mapping.get(a)
                if base is None: base = Rat(Poly.atom(a))
                for _ in range(e): term = term * base
            total = total + term
        return total

    def diff(self, atom):
        r = {}
        for m, c in self.t.items():
            for k, (a, e) in enumerate(m):
                if a == atom:
                    nm = m[:k] + (((a, e - 1),) if e > 1 else ()) + m[k + 1:]
                    r[nm] = r.get(nm, 0) + c * e
        return Poly({m: c for m, c in r.items() if c != 0})

    def __str__(self):
        if not self.t: return '0'
        parts = []
        for m in sorted(self.t):
            c = self.t[m]
            ms = '*'.join(atom_str(a) + ('^%d' % e if e > 1 else '') for a, e in m)
            if not ms: parts.append(str(c))
            elif c == 1: parts.append(ms)
            elif c == -1: parts.append('-' + ms)
            else: parts.append('%s*%s' % (c, ms))
        s = ' + '.join(parts)
        if len(s) < 400: return s
        import zlib
        return s[:400] + '...(%d terms #%08x)' % (len(self.t), zlib.crc32(s.encode()))


def _mono_div(a, b):
    """a / b for monomials, or None"""
    out = []; j = 0
    for (x, e) in a:
        if j < len(b) and b[j][0] == x:
            if b[j][1] > e: return None
            if e - b[j][1] > 0: out.append((x, e - b[j][1]))
            j += 1
        else:
            if j < len(b) and b[j][0] < x: return None
            out.append((x, e))
    if j != len(b): return None
    return tuple(out)


def _mono_key(m):
    # graded lex order for division
    return (sum(e for _, e in m), m)


def poly_divexact(p, q):
    """exact division p / q in Q[atoms]; None when q does not divide p (or gives up)"""
    if q.is_zero(): return None
    if p.is_zero(): return Poly()
    if len(q.t) == 1:
        (qm, qc), = q.t.items()
        r = {}
        for m, c in p.t.items():
            d = _mono_div(m, qm)
            if d is None: return None
            r[d] = c / qc
        return Poly(r)
    qm = max(q.t, key=_mono_key); qc = q.t[qm]
    rem = dict(p.t); quo = {}
    steps = 0
    while rem:
        steps += 1
        if steps > 20000: return None
        m = max(rem, key=_mono_key)
        d = _mono_div(m, qm)
        if d is None: return None
        c = rem[m] / qc
        quo[d] = quo.get(d, 0) + c
        for m2, c2 in q.t.items():
            mm = _mono_mul(d, m2)
            v = rem.get(mm, 0) - c * c2
            if v == 0: rem.pop(mm, None)
            else: rem[mm] = v
    return Poly({m: c for m, c in quo.items() if c != 0})


# ------------------------------------------------------------------ rational functions
class Rat:
    __slots__ = ('num', 'den')

    def __init__(self, num, den=None):
        if den is None:
            self.num = num; self.den = _ONE
            return
        if den.is_zero(): raise ZeroDivisionError('rational with zero denominator')
        if num.is_zero():
            self.num = num; self.den = _ONE; return
        if den.is_const():
            self.num = num.scale(1 / den.const_value()); self.den = _ONE; return
        # cheap reductions: exact division either way
        q = poly_divexact(num, den)
        if q is not None:
            self.num = q; self.den = _ONE; return
        q = poly_divexact(den, num)
        if q is not None:
            num = _ONE; den = q
        # normalise the sign/scale of the denominator
        _, lc = den.lead()
        if lc != 1:
            num = num.scale(1 / lc); den = den.scale(1 / lc)
        self.num = num; self.den = den

    @staticmethod
    def const(c): return Rat(Poly.const(c))

    @staticmethod
    def atom(i): return Rat(Poly.atom(i))

    def is_poly(self): return self.den is _ONE or self.den == _ONE

    def is_const(self): return self.is_poly() and self.num.is_const()

    def const_value(self): return self.num.const_value()

    def is_zero(self): return self.num.is_zero()

    def __add__(self, o):
        if self.den == o.den: return Rat(self.num + o.num, self.den)
        if self.is_poly(): return Rat(self.num * o.den + o.num, o.den)
        if o.is_poly(): return Rat(self.num + o.num * self.den, self.den)
        q = poly_divexact(self.den, o.den)
        if q is not None: return Rat(self.num + o.num * q, self.den)
        q = poly_divexact(o.den, self.den)
        if q is not None: return Rat(self.num * q + o.num, o.den)
        return Rat(self.num * o.den + o.num * self.den, self.den * o.den)

    def __neg__(self): return Rat(-self.num, self.den)

    def __sub__(self, o): return self + (-o)

    def __mul__(self, o):
        if self.is_poly() and o.is_poly(): return Rat(self.num * o.num)
        # cross-cancel when cheap
        n1, d1, n2, d2 = self.num, self.den, o.num, o.den
        if not (d2 is _ONE):
            q = poly_divexact(n1, d2)
            if q is not None: n1, d2 = q, _ONE
        if not (d1 is _ONE):
            q = poly_divexact(n2, d1)
            if q is not None: n2, d1 = q, _ONE
        return Rat(n1 * n2, d1 * d2)

    def inv(self):
        if self.num.is_zero(): raise ZeroDivisionError('inverse of zero')
        return Rat(self.den, self.num)

    def __truediv__(self, o): return self * o.inv()

    def __eq__(self, o):
        if not isinstance(o, Rat): return NotImplemented
        if self.den == o.den: return self.num == o.num
        return self.num * o.den == o.num * self.den

    def __ne__(self, o): return not self.__eq__(o)

    def __hash__(self):  # only a weak hash (equal values may differ structurally)
        return 0

    def atoms(self): return self.num.atoms() | self.den.atoms()

    def subs(self, mapping):
        return self.num.subs(mapping) / self.den.subs(mapping)

    def subs_deep(self, mapping):
        """like subs, but also inside the arguments of uninterpreted-function atoms"""
        mp = dict(mapping)
        for a in self.atoms():
            if a in mp: continue
            k, n, args = _ATOMS[a]
            if k == 'fn' and args:
                na = [x.subs_deep(mapping) for x in args]
                if any(not (x == y) for x, y in zip(na, args)):
                    if n == 'sqrt' and len(na) == 1: mp[a] = sqrt(na[0])
                    elif n == 'sin' and len(na) == 1 and na[0].is_zero(): mp[a] = C(0)
                    elif n == 'cos' and len(na) == 1 and na[0].is_zero(): mp[a] = C(1)
                    else: mp[a] = fn(n, *na)
        return self.subs(mp)

    def diff(self, atom):
        if self.is_poly(): return Rat(self.num.diff(atom))
        # (n/d)' = (n' d - n d') / d^2
        return Rat(self.num.diff(atom) * self.den - self.num * self.den.diff(atom), self.den * self.den)

    def __str__(self):
        if self.is_poly(): return str(self.num)
        return '(%s) / (%s)' % (self.num, self.den)

    __repr__ = __str__


_ONE = Poly.const(1)


def C(c): return Rat.const(c)


def sym(name): return Rat.atom(atom_in(name))


NAME_ALIAS = {}      # spec-side renaming of named constants (f64 twin pass: 'eps:f32' -> 'eps:f64'); never applied to the driver's facts


def named(name): return Rat.atom(atom_const(NAME_ALIAS.get(name, name)))


def named_raw(name): return Rat.atom(atom_const(name))


def fn(name, *args): return Rat.atom(atom_fn(name, args))


def sqrt(x):
    if x.is_const():
        v = x.const_value()
        if v >= 0:
            from math import isqrt
            n, d = v.numerator, v.denominator
            if isqrt(n) ** 2 == n and isqrt(d) ** 2 == d:
                return C(Fraction(isqrt(n), isqrt(d)))
    if not x.is_poly():
        # sqrt(N/D) = sqrt(N)/sqrt(D) (positive radicands): keeps every radicand a polynomial, so that sqrt(P)^2 -> P stays confluent
        return sqrt(Rat(x.num)) / sqrt(Rat(x.den))
    return fn('sqrt', x)


def rat_sum(xs):
    t = C(0)
    for x in xs: t = t + x
    return t


def evalf(r, env):
    """numeric (Fraction) evaluation of a Rat under env: atom id -> Fraction; fn atoms via env['fn'](name,args)"""
    def ev_poly(p):
        tot = Fraction(0)
        for m, c in p.t.items():
            v = c
            for (a, e) in m:
                v *= ev_atom(a) ** e
            tot += v
        return tot

    def ev_atom(a):
        if a in env: return env[a]
        k, n, args = _ATOMS[a]
        if k == 'fn':
            vals = [evalf(x, env) for x in args]
            v = env['__fn__'](n, vals)
            return v
        raise KeyError('no value for atom ' + atom_str(a))
    return ev_poly(r.num) / ev_poly(r.den)
