"""C20 build matrix: `cargo +stable check` of /repo's working tree for feature configurations (the type checker is the analysis)."""
import itertools, os, shutil, subprocess, tempfile, re, time
from concurrent.futures import ThreadPoolExecutor
from .run import REPO

FEATURES = ['vec8', 'vec16', 'vec32', 'vec64', 'rgb', 'rgba', 'uv', 'uvw', 'serde', 'mint', 'bytemuck', 'az', 'image', 'repr_simd']
TUPLE_VECS = ['vec8', 'vec16', 'vec32', 'vec64']
INTEROP = ['serde', 'mint', 'bytemuck', 'az', 'image']


def configs(tier):
    out = []
    bases = ['std', 'libm']
    singles = [(f,) for f in FEATURES]
    pairs = list(itertools.combinations(FEATURES, 2))
    if tier == 'quick':
        sets = [()] + singles + [(a, b) for a in TUPLE_VECS for b in INTEROP] + [tuple(FEATURES)]
        for s in sets: out.append(('std', s))
        for s in [()] + singles + [tuple(FEATURES)]: out.append(('libm', s))
    else:
        for b in bases:
            for s in [()] + singles + pairs + [tuple(FEATURES)]: out.append((b, s))
    return out


def check_one(tdir, base, fs):
    feats = ' '.join((base,) + tuple(fs))
    env = dict(os.environ); env['CARGO_TARGET_DIR'] = tdir; env['CARGO_NET_OFFLINE'] = 'true'
    for k in ('RUSTC_WRAPPER', 'RUSTC_WORKSPACE_WRAPPER', 'RUSTFLAGS'): env.pop(k, None)
    p = subprocess.run(['cargo', '+stable', 'check', '--offline', '--lib', '--no-default-features', '--features', feats, '--manifest-path', os.path.join(REPO, 'Cargo.toml')], capture_output=True, text=True, env=env)
    ok = p.returncode == 0
    err = None
    if not ok:
        m = re.search(r'(error(\[E\d+\])?: [^\n]*)\n\s*--> ([^\n]+)', p.stderr)
        err = {'msg': m.group(1), 'where': m.group(3)} if m else {'msg': p.stderr[-400:], 'where': ''}
    return feats, ok, err


def run_matrix(tier, jobs=16):
    cfgs = configs(tier)
    root = tempfile.mkdtemp(prefix='vekfeat.')
    results = []
    try:
        # distribute configurations over `jobs` target dirs (each dir is used sequentially)
        buckets = [[] for _ in range(jobs)]
        for i, c in enumerate(cfgs): buckets[i % jobs].append(c)

        def work(k):
            tdir = os.path.join(root, 't%d' % k); out = []
            for base, fs in buckets[k]: out.append(check_one(tdir, base, fs))
            return out
        with ThreadPoolExecutor(max_workers=jobs) as ex:
            for res in ex.map(work, range(jobs)): results.extend(res)
    finally:
        shutil.rmtree(root, ignore_errors=True)
    return results


# ------------------------------------------------------------------ "a feature only adds items": per-body MIR fingerprints (local mode of the driver)
FP_FEATURES = [f for f in FEATURES if f != 'repr_simd']    # repr_simd needs the nightly-only repr(simd) code paths: build matrix only


def fingerprint_pairs(tier):
    bases = ['std'] if tier == 'quick' else ['std', 'libm']
    out = []
    for b in bases:
        exts = [(f,) for f in FP_FEATURES] + [tuple(FP_FEATURES)]
        out.append((b, exts))
    return out


def run_fingerprints(tier, jobs=8):
    """returns [(base, ext tuple, missing item paths, changed item paths, n_base, n_ext, error)]"""
    from . import run as vrun
    plan = fingerprint_pairs(tier)
    todo = []
    for b, exts in plan:
        todo.append((b, ()))
        for e in exts: todo.append((b, e))

    def work(cfg):
        b, e = cfg
        sc = vrun.scan([], [b] + list(e), local=True)
        if sc.compile_error is not None: return cfg, None, sc.compile_error[-600:]
        if not getattr(sc, 'local', None): return cfg, None, 'no local facts'
        return cfg, sc.local[0].get('fingerprints', {}), None
    res = {}
    with ThreadPoolExecutor(max_workers=jobs) as ex:
        for cfg, fp, err in ex.map(work, todo): res[cfg] = (fp, err)
    out = []
    for b, exts in plan:
        base, berr = res[(b, ())]
        for e in exts:
            fp, err = res[(b, e)]
            if base is None or fp is None:
                out.append((b, e, [], [], 0, 0, berr or err)); continue
            missing = sorted(k for k in base if k not in fp)
            changed = sorted(k for k in base if k in fp and base[k] != fp[k])
            out.append((b, e, missing, changed, len(base), len(fp), None))
    return out
