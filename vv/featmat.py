"""C20 build matrix: `cargo +stable check` of /repo's working tree for feature configurations (the type checker is the analysis)."""
import itertools, os, shutil, subprocess, tempfile, re, time
from concurrent.futures import ThreadPoolExecutor
from .run import REPO

FEATURES = ['vec8', 'vec16', 'vec32', 'vec64', 'rgb', 'rgba', 'uv', 'uvw', 'serde', 'mint', 'bytemuck', 'az', 'image', 'repr_simd']
TUPLE_VECS = ['vec8', 'vec16', 'vec32', 'vec64']
INTEROP = ['serde', 'mint', 'bytemuck', 'az', 'image']


def configs(tier):
    out = []
    bases = ['std', 'libm']
    singles = [(f,) for f in FEATURES]
    pairs = list(itertools.combinations(FEATURES, 2))
    if tier == 'quick':
        sets = [()] + singles + [(a, b) for a in TUPLE_VECS for b in INTEROP] + [tuple(FEATURES)]
        for s in sets: out.append(('std', s))
        for s in [()] + singles + [tuple(FEATURES)]: out.append(('libm', s))
    else:
        for b in bases:
            for s in [()] + singles + pairs + [tuple(FEATURES)]: out.append((b, s))
    return out


def check_one(tdir, base, fs):
    feats = ' '.join((base,) + tuple(fs))
    env = dict(os.environ); env['CARGO_TARGET_DIR'] = tdir; env['CARGO_NET_OFFLINE'] = 'true'
    for k in ('RUSTC_WRAPPER', 'RUSTC_WORKSPACE_WRAPPER', 'RUSTFLAGS'): env.pop(k, None)
    p = subprocess.run(['cargo', '+stable', 'check', '--offline', '--lib', '--no-default-features', '--features', feats, '--manifest-path', os.path.join(REPO, 'Cargo.toml')], capture_output=True, text=True, env=env)
    ok = p.returncode == 0
    err = None
    if not ok:
        m = re.search(r'(error(\[E\d+\])?: [^\n]*)\n\s*--> ([^\n]+)', p.stderr)
        err = {'msg': m.group(1), 'where': m.group(3)} if m else {'msg': p.stderr[-400:], 'where': ''}
    return feats, ok, err


def run_matrix(tier, jobs=16):
    cfgs = configs(tier)
    root = tempfile.mkdtemp(prefix='vekfeat.')
    results = []
    try:
        # distribute configurations over `jobs` target dirs (each dir is used sequentially)
        buckets = [[] for _ in range(jobs)]
        for i, c in enumerate(cfgs): buckets[i % jobs].append(c)

        def work(k):
            tdir = os.path.join(root, 't%d' % k); out = []
            for base, fs in buckets[k]: out.append(check_one(tdir, base, fs))
            return out
        with ThreadPoolExecutor(max_workers=jobs) as ex:
            for res in ex.map(work, range(jobs)): results.extend(res)
    finally:
        shutil.rmtree(root, ignore_errors=True)
    return results
