"""Order-type / grid evaluation of the abstract paths of a root.

A root whose branch conditions are comparisons of (linear forms in) input leaves has finitely many behaviours; for a given
assignment of values to the leaves exactly one enumerated path is feasible. This module evaluates the *abstract* path set
(conditions and result expressions produced by the MIR interpreter) on assignments; no vek code is executed."""
from fractions import Fraction
from . import alg
from .alg import Rat
from .sem import B, num_fn
from .run import leaves, Enum, Ptr


def weak_orderings(k):
    """all weak orderings of k items as dense rank tuples (3 for k=2, 13 for k=3, 75 for k=4, 541 for k=5)"""
    out = []

    def rec(prefix, used):
        if len(prefix) == k:
            # dense: ranks used must be 0..m
            m = max(prefix) if prefix else -1
            if set(prefix) == set(range(m + 1)): out.append(tuple(prefix))
            return
        for r in range(k):
            rec(prefix + [r], used)
    rec([], 0)
    return out


_WO = {}


def wo(k):
    if k not in _WO: _WO[k] = weak_orderings(k)
    return _WO[k]


def _lin(r):
    """(coeffs {atom: Fraction}, const) of a linear polynomial Rat, or None"""
    if not r.is_poly(): return None
    co = {}; c0 = Fraction(0)
    for m, c in r.num.t.items():
        if m == (): c0 += c
        elif len(m) == 1 and m[0][1] == 1 and alg._ATOMS[m[0][0]][0] != 'fn': co[m[0][0]] = c
        else: return None
    return co, c0


class CB:
    """compiled boolean formula"""
    def __init__(self, b):
        self.b = b; self.k = b.k
        self.lin = None
        if b.k in ('gt0', 'ge0', 'eq0', 'ne0'):
            self.lin = _lin(b.a[0])
        elif b.k in ('and', 'or'):
            self.l = CB(b.a[0]); self.r = CB(b.a[1])
        elif b.k == 'not':
            self.l = CB(b.a[0])

    def ev(self, env):
        k = self.k
        if self.lin is not None:
            co, c0 = self.lin
            v = c0
            for a, c in co.items(): v += c * env[a]
            return v > 0 if k == 'gt0' else v >= 0 if k == 'ge0' else v == 0 if k == 'eq0' else v != 0
        if k == 'and': return self.l.ev(env) and self.r.ev(env)
        if k == 'or': return self.l.ev(env) or self.r.ev(env)
        if k == 'not': return not self.l.ev(env)
        return self.b.eval(env)


def bkey(b):
    """structural key of a boolean formula (its printed form may abbreviate long atoms and collide); interned, linear in the DAG size"""
    from .sem import skey
    return skey(b)


class CompiledRoot:
    def __init__(self, res):
        self.res = res
        self.cond_tab = {}
        self.paths = []
        for p in res.paths:
            keys = []
            for c in p.conds:
                if isinstance(c, B) and c.k == 'const':
                    if not c.a[0]: keys = None; break
                    continue
                s = bkey(c)
                if s not in self.cond_tab: self.cond_tab[s] = CB(c)
                keys.append(s)
            if keys is not None: self.paths.append((keys, p))

    def run(self, env):
        """the unique path feasible under env (raises if none or several)"""
        memo = {}
        hit = None
        for keys, p in self.paths:
            ok = True
            for s in keys:
                v = memo.get(s)
                if v is None:
                    v = self.cond_tab[s].ev(env); memo[s] = v
                if not v: ok = False; break
            if ok:
                if hit is not None: raise AssertionError('two feasible paths for one assignment (conditions do not partition): %s / %s' % ([str(c) for c in hit.conds], [str(c) for c in p.conds]))
                hit = p
        if hit is None: raise AssertionError('no feasible path for the assignment')
        return hit


def mkenv(assign):
    """assign: {leaf name: value} -> evaluation environment"""
    env = {alg.atom_in(k): Fraction(v) for k, v in assign.items()}
    env['__fn__'] = num_fn
    return env


def value(x, env):
    """numeric value of a converted result (Rat -> Fraction, B -> bool, lists recursively)"""
    if isinstance(x, list): return [value(y, env) for y in x]
    if isinstance(x, Ptr): return value(x.v, env)
    if isinstance(x, Enum): return ('enum', x.var, [value(y, env) for y in x.fields])
    if isinstance(x, B): return CB(x).ev(env)
    if isinstance(x, Rat):
        if x.is_poly() and len(x.num.t) == 1:
            (m, c), = x.num.t.items()
            if c == 1 and len(m) == 1 and m[0][1] == 1 and m[0][0] in env: return env[m[0][0]]
        return alg.evalf(x, env)
    return x


def truthv(x, env):
    v = value(x, env)
    if isinstance(v, bool): return v
    return v != 0
