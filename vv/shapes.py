"""Names and shapes of vek's types as seen by the specs (semantic coordinates <-> input leaf names)."""
from .alg import sym, C, Rat
from .run import leaves

XYZW = ['x', 'y', 'z', 'w']

# vector kinds: name -> (field names, cargo feature or None)
VEC_FIELDS = {
    'Vec2': (['x', 'y'], None), 'Vec3': (['x', 'y', 'z'], None), 'Vec4': (['x', 'y', 'z', 'w'], None),
    'Extent2': (['w', 'h'], None), 'Extent3': (['w', 'h', 'd'], None),
    'Rgb': (['r', 'g', 'b'], 'rgb'), 'Rgba': (['r', 'g', 'b', 'a'], 'rgba'),
    'Uv': (['u', 'v'], 'uv'), 'Uvw': (['u', 'v', 'w'], 'uvw'),
    'Vec8': ([str(i) for i in range(8)], 'vec8'), 'Vec16': ([str(i) for i in range(16)], 'vec16'),
    'Vec32': ([str(i) for i in range(32)], 'vec32'), 'Vec64': ([str(i) for i in range(64)], 'vec64'),
}
SPATIAL = ['Vec2', 'Vec3', 'Vec4', 'Extent2', 'Extent3', 'Vec8', 'Vec16', 'Vec32', 'Vec64']

QUICK_FEATURES = ['std', 'rgb', 'rgba', 'uv', 'uvw', 'vec8', 'vec16', 'vec32', 'vec64']
ALL_FEATURES = ['std', 'rgb', 'rgba', 'uv', 'uvw', 'vec8', 'vec16', 'vec32', 'vec64']


def vec_kinds(features):
    return [k for k, (_, f) in VEC_FIELDS.items() if f is None or f in features]


def vdim(kind): return len(VEC_FIELDS[kind][0])


def vsyms(arg, kind):
    """input symbols of a vector argument"""
    return [sym('%s.%s' % (arg, f)) for f in VEC_FIELDS[kind][0]]


def vnew_args(kind):
    return VEC_FIELDS[kind][0]


MATS = [('Rows', 2), ('Rows', 3), ('Rows', 4), ('Cols', 2), ('Cols', 3), ('Cols', 4)]


def mname(layout, n): return '%s%d' % (layout, n)


def vecn(n): return 'Vec%d' % n


def msyms(arg, layout, n):
    """grid[i][j] = symbol of element (row i, column j) of a matrix argument"""
    fld = 'rows' if layout == 'Rows' else 'cols'
    g = [[None] * n for _ in range(n)]
    for a in range(n):
        for b in range(n):
            s = sym('%s.%s.%s.%s' % (arg, fld, XYZW[a], XYZW[b]))
            if layout == 'Rows': g[a][b] = s
            else: g[b][a] = s
    return g


def mgrid(val, layout, n):
    """grid[i][j] of a matrix value returned by the driver (storage leaves -> (row, col))"""
    l = leaves(val)
    if len(l) != n * n: raise ValueError('matrix value with %d leaves, expected %d' % (len(l), n * n))
    g = [[None] * n for _ in range(n)]
    for k, x in enumerate(l):
        a, b = divmod(k, n)
        if layout == 'Rows': g[a][b] = x
        else: g[b][a] = x
    return g


def matmul(A, B):
    n = len(A); m = len(B[0]); k = len(B)
    out = [[C(0)] * m for _ in range(n)]
    for i in range(n):
        for j in range(m):
            t = C(0)
            for l in range(k): t = t + A[i][l] * B[l][j]
            out[i][j] = t
    return out


def matvec(A, v):
    return [sum_((A[i][k] * v[k] for k in range(len(v)))) for i in range(len(A))]


def vecmat(v, A):
    return [sum_((v[k] * A[k][j] for k in range(len(v)))) for j in range(len(A[0]))]


def sum_(xs):
    t = C(0)
    for x in xs: t = t + x
    return t


def ident(n): return [[C(1) if i == j else C(0) for j in range(n)] for i in range(n)]


def transpose(A): return [list(r) for r in zip(*A)]


def perms(n):
    import itertools
    for p in itertools.permutations(range(n)):
        inv = sum(1 for i in range(n) for j in range(i + 1, n) if p[i] > p[j])
        yield p, (-1 if inv % 2 else 1)


def det(A):
    n = len(A); t = C(0)
    for p, s in perms(n):
        term = C(s)
        for i in range(n): term = term * A[i][p[i]]
        t = t + term
    return t


def minor(A, i, j):
    return [[A[r][c] for c in range(len(A)) if c != j] for r in range(len(A)) if r != i]


def adjugate(A):
    n = len(A)
    if n == 1: return [[C(1)]]
    return [[(C(1) if (i + j) % 2 == 0 else C(-1)) * det(minor(A, j, i)) for j in range(n)] for i in range(n)]


def dot(a, b): return sum_(x * y for x, y in zip(a, b))


def cross(a, b):
    return [a[1] * b[2] - a[2] * b[1], a[2] * b[0] - a[0] * b[2], a[0] * b[1] - a[1] * b[0]]


def grid_eq(ctx, key, G, E, rule, where=''):
    ok = True
    for i in range(len(E)):
        for j in range(len(E[0])):
            ok &= ctx.same('%s/(%d,%d)' % (key, i, j), G[i][j], E[i][j], rule, where)
    return ok


def vec_eq(ctx, key, V, E, rule, where=''):
    V = leaves(V)
    if len(V) != len(E):
        return ctx.ob(key + '/len', False, rule, where, len(E), len(V))
    ok = True
    for i in range(len(E)):
        ok &= ctx.same('%s/[%d]' % (key, i), V[i], E[i], rule, where)
    return ok
