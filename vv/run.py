"""Build the roots crate for a check, run the vekscan driver over /repo's working tree, load the facts."""
import glob, json, os, shutil, subprocess, tempfile, time
from . import alg
from .sem import Sem, B
from .alg import Rat, C

VERIF = os.path.dirname(os.path.dirname(os.path.abspath(__file__)))
REPO = os.environ.get('VEK_REPO', '/repo')
DRIVER = os.path.join(VERIF, 'vekscan', 'target', 'release', 'vekscan')

PRELUDE = r'''#![allow(unused, deprecated, non_snake_case, clippy::all)]
extern crate vek;
extern crate num_traits;
extern crate approx;
use vek::*;
use vek::ops::*;
use vek::mat::repr_c::row_major::{Mat2 as Rows2, Mat3 as Rows3, Mat4 as Rows4};
use vek::mat::repr_c::column_major::{Mat2 as Cols2, Mat3 as Cols3, Mat4 as Cols4};
use core::ops::*;

/// ownership-tracked opaque element type (recognised by name by the driver)
pub struct Tok(u32);
impl Drop for Tok { fn drop(&mut self) {} }
impl core::fmt::Debug for Tok { fn fmt(&self, f: &mut core::fmt::Formatter) -> core::fmt::Result { touch(self); Ok(()) } }
impl PartialEq for Tok { fn eq(&self, o: &Tok) -> bool { touch(self); touch(o); true } }
impl Eq for Tok {}
impl core::hash::Hash for Tok { fn hash<H: core::hash::Hasher>(&self, h: &mut H) { touch(self); } }
impl Default for Tok { fn default() -> Tok { Tok(0) } }
#[inline(never)] pub fn touch(t: &Tok) {}
/// unwind point: the driver forks here (returns / panics and unwinds through the cleanup edges)
#[inline(never)] pub fn maybe_unwind() {}
'''


class Root:
    def __init__(self, name, code, opaque=(), max_paths=64):
        assert name.startswith('r_')
        self.name = name; self.code = code; self.opaque = list(opaque); self.max_paths = max_paths


class Ptr:
    def __init__(self, d, v): self.d = d; self.v = v
    def __repr__(self): return 'Ptr(%s %s off=%s sl=%s -> %r)' % (self.d.get('alloc'), self.d.get('path'), self.d.get('off'), self.d.get('sl'), self.v)


class Enum:
    def __init__(self, var, fields): self.var = var; self.fields = fields
    def __repr__(self): return 'Enum(%d, %r)' % (self.var, self.fields)
    def __eq__(self, o): return isinstance(o, Enum) and self.var == o.var and self.fields == o.fields


class Path:
    def __init__(self, sem, d):
        self.sem = sem; self.d = d
        self.out = d['out']
        self.panic = d.get('panic')
        self.conds = [sem.cond(t, v) for t, v in d['conds']]
        self.raw_conds = d['conds']
        self.events = d.get('events', [])
        self._ret = None

    def conv(self, j):
        if isinstance(j, str): return j
        if 't' in j: return self.sem.val(j['t'])
        if 'i' in j: return C(int(j['i']))
        if 'a' in j: return [self.conv(x) for x in j['a']]
        if 'e' in j: return Enum(j['e'][0], [self.conv(x) for x in j['e'][1]])
        if 'p' in j: return Ptr(j['p'], self.conv(j['p']['v']) if 'v' in j['p'] else None)
        if 'fn' in j: return ('fn', j['fn'])
        if 's' in j: return ('str', j['s'])
        raise ValueError(j)

    @property
    def ret(self):
        if self._ret is None and 'ret' in self.d: self._ret = self.conv(self.d['ret'])
        return self._ret

    def mut(self, name): return self.conv(self.d['muts'][name])

    def ev(self, kind): return [e for e in self.events if e[0] == kind]

    def term(self, tid): return self.sem.val(tid)


class RootResult:
    def __init__(self, d):
        self.d = d; self.name = d['name']; self.status = d['status']
        self.sem = Sem(d['terms'])
        self.paths = [Path(self.sem, p) for p in d['paths']]
        self.steps = d['steps']

    @property
    def ok(self): return self.status == 'ok'

    def only(self):
        """the single returning path of a branch-free root"""
        rets = [p for p in self.paths if p.out == 'ret']
        if len(self.paths) != 1 or len(rets) != 1:
            raise AssertionError('%s: expected exactly one path, got %d (%s)' % (self.name, len(self.paths), [p.out for p in self.paths]))
        return rets[0]


def leaves(v):
    """flatten a converted value into its scalar leaves"""
    if isinstance(v, list):
        out = []
        for x in v: out.extend(leaves(x))
        return out
    if isinstance(v, Ptr): return leaves(v.v)
    return [v]


class Scan:
    def __init__(self, results, wall, log, compile_error=None):
        self.results = results; self.wall = wall; self.log = log; self.compile_error = compile_error

    def __getitem__(self, k): return self.results[k]
    def __contains__(self, k): return k in self.results
    def get(self, k): return self.results.get(k)


def sysroot_lib():
    out = subprocess.run(['rustc', '+nightly', '--print', 'sysroot'], capture_output=True, text=True, check=True).stdout.strip()
    return os.path.join(out, 'lib')


def scan(roots, features, local=False, extra_prelude='', keep=False, only=None, extra_deps='', extra_rustflags='', extra_env=None, reset=True):
    """run the driver; returns Scan. Fresh target dir each time (mandatory: cargo would skip the wrapper).
    reset=False: do not touch the algebra's global state (used by the configuration pass, which runs beside the spec in a thread)."""
    if reset: alg.reset()
    t0 = time.time()
    tmp = tempfile.mkdtemp(prefix='vekscan.')
    try:
        crate = os.path.join(tmp, 'roots'); os.makedirs(os.path.join(crate, 'src'))
        facts = os.path.join(tmp, 'facts'); os.makedirs(facts)
        feats = ', '.join('"%s"' % f for f in features)
        with open(os.path.join(crate, 'Cargo.toml'), 'w') as f:
            f.write('[package]\nname = "roots"\nversion = "0.0.0"\nedition = "2021"\n[lib]\npath = "src/lib.rs"\n[dependencies]\n'
                    'vek = { path = "%s", default-features = false, features = [%s] }\n'
                    'num-traits = { version = "0.2.15", default-features = false }\napprox = { version = "0.5.0", default-features = false }\n%s\n[workspace]\n' % (REPO, feats, extra_deps))
        lock = os.path.join(REPO, 'Cargo.lock')
        if os.path.exists(lock): shutil.copy(lock, os.path.join(crate, 'Cargo.lock'))
        with open(os.path.join(crate, 'src', 'lib.rs'), 'w') as f:
            f.write(PRELUDE + extra_prelude + '\n')
            for r in roots: f.write(r.code.rstrip() + '\n')
        cfgp = os.path.join(tmp, 'cfg.tsv')
        with open(cfgp, 'w') as f:
            for r in roots: f.write('%s\t%d\t%s\n' % (r.name, r.max_paths, '|'.join(r.opaque)))
        env = dict(os.environ)
        env.update({
            'LD_LIBRARY_PATH': sysroot_lib() + ':' + env.get('LD_LIBRARY_PATH', ''),
            'RUSTFLAGS': '-Zmir-opt-level=0 -Zalways-encode-mir -Zmir-enable-passes=-CheckAlignment,-CheckNull -Awarnings --cfg vek_verif_scan',
            'RUSTC_WRAPPER': DRIVER, 'VEKSCAN_OUT': facts, 'VEKSCAN_CFG': cfgp,
            'CARGO_TARGET_DIR': os.path.join(tmp, 'target'), 'CARGO_NET_OFFLINE': 'true',
        })
        env.pop('RUSTC_WORKSPACE_WRAPPER', None)
        if local: env['VEKSCAN_LOCAL'] = '1'
        if extra_rustflags: env['RUSTFLAGS'] += ' ' + extra_rustflags
        if extra_env: env.update(extra_env)
        if only: env['VEKSCAN_ONLY'] = only
        p = subprocess.run(['cargo', '+nightly', 'check', '--offline', '--manifest-path', os.path.join(crate, 'Cargo.toml')], capture_output=True, text=True, env=env)
        log = p.stdout + p.stderr
        if p.returncode != 0:
            return Scan({}, time.time() - t0, log, compile_error=log)
        files = glob.glob(os.path.join(facts, 'roots.*.json'))
        if len(files) != 1:
            raise RuntimeError('driver produced %d root fact files (expected 1); log:\n%s' % (len(files), log[-3000:]))
        data = json.load(open(files[0]))
        res = {r['name']: RootResult(r) for r in data['roots']} if reset else {}
        loc = glob.glob(os.path.join(facts, 'local.*.json'))
        sc = Scan(res, time.time() - t0, log)
        sc.local = [json.load(open(x)) for x in loc]
        if keep:
            sc.kept = tmp; tmp = None
        return sc
    finally:
        if tmp: shutil.rmtree(tmp, ignore_errors=True)


# ---------------------------------------------------------------------------------------------------------------------------------
# Configuration pass (every check): the verdicts are computed on the configuration the driver compiles -- debug assertions on, the
# nightly toolchain (for which vek's build.rs emits `--cfg nightly`). Users build with the stable channel cfg and, usually, in release
# mode. The pass compiles vek twice in local mode -- as analysed, and with `--cfg stable` + `-C debug-assertions=off` -- and hands back the
# per-body MIR fingerprints (literals of `debug_assert!` expansions masked) and the purity report of the asserted regions.
CONFIG_FEATURES = ['std', 'rgb', 'rgba', 'uv', 'uvw', 'vec8', 'vec16', 'vec32', 'vec64', 'mint', 'az']
ALT_RUSTFLAGS = '-C debug-assertions=off -C overflow-checks=on'
ALT_ENV = {'VEKSCAN_CHANNEL': 'stable'}


ALL_OPTIONAL = ['std', 'libm', 'mint', 'az', 'bytemuck', 'serde', 'image']


class ConfigPass:
    """three local-mode compilations of vek beside the analysis: [0] as analysed; [1] `--cfg stable`, no debug assertions, `libm` in place of
    `std` (no_std build); [2] as analysed plus every optional cargo feature (repr_simd / platform_intrinsics need a nightly this image lacks)"""
    def __init__(self, features=None):
        import threading
        features = list(features or CONFIG_FEATURES); self.features = features
        self.res = [None, None, None]; self.err = [None, None, None]
        alt1 = [('libm' if f == 'std' else f) for f in features]
        alt2 = sorted(set(features) | set(ALL_OPTIONAL))
        plans = [(features, {}), (alt1, {'extra_rustflags': ALT_RUSTFLAGS, 'extra_env': ALT_ENV}), (alt2, {})]
        self.what = ['analysed configuration', 'release build, stable-channel cfg, libm instead of std (features: %s)' % ' '.join(alt1), 'build with every optional cargo feature (%s)' % ' '.join(alt2)]
        def work(i):
            try:
                self.res[i] = scan([], plans[i][0], local=True, reset=False, **plans[i][1])
            except Exception as e:  # reported by the caller (fail closed)
                self.err[i] = repr(e)
        self.threads = [threading.Thread(target=work, args=(i,), daemon=True) for i in range(3)]
        for t in self.threads: t.start()

    def join(self):
        for t in self.threads: t.join()
        return self
